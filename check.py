#!/opt/veriftools/pyvenv/bin/python
"""./check <Cxx> [--tier quick|thorough] [--replay FILE]

Decides one property: verifies every function under contract for it (pyvc, from /repo's current tree),
handles known findings, produces replayable counterexamples through the property's native harness, writes
evidence/<id>.json.   Exit 0 held / 1 VIOLATION / 3 checker broken.
"""
from __future__ import annotations

import argparse
import json
import os
import subprocess
import sys
import time
import multiprocessing as mp

HERE = os.path.dirname(os.path.abspath(__file__))
sys.path.insert(0, HERE)
VENV_PY = "/venv/bin/python"


def _verify_one(qual):
    from pyvc.world import World
    from pyvc.driver import verify_function
    from contracts import build_registry
    w = World()
    reg = build_registry(w)
    return verify_function(w, reg, qual)


def run_harness(pid, mode, args, timeout):
    """native harness under /venv/bin/python (the real code, imported from /repo/src)"""
    h = os.path.join(HERE, "replay", f"h_{pid.lower()}.py")
    if not os.path.exists(h):
        return None
    env = dict(os.environ)
    env.setdefault("VERIF_REPO_SRC", "/repo/src")
    try:
        p = subprocess.run([VENV_PY, h, mode] + args, capture_output=True, text=True, timeout=timeout, env=env, cwd=HERE)
    except subprocess.TimeoutExpired:
        return {"error": "harness timeout"}
    last = None
    for line in p.stdout.splitlines():
        line = line.strip()
        if line.startswith("{"):
            try:
                last = json.loads(line)
            except Exception:
                pass
    if last is None:
        return {"error": f"harness produced no result (exit {p.returncode}): {p.stderr[-800:]}"}
    last["exit"] = p.returncode
    return last


def main():
    ap = argparse.ArgumentParser()
    ap.add_argument("prop")
    ap.add_argument("--tier", default=os.environ.get("VERIF_TIER", "quick"))
    ap.add_argument("--replay")
    ap.add_argument("--relock", action="store_true")
    a = ap.parse_args()
    pid = a.prop
    os.environ["VERIF_TIER"] = a.tier
    seed = int(os.environ.get("VERIF_SEED", "0"))
    t0 = time.time()

    if a.replay:
        rec = json.load(open(a.replay))
        r = run_harness(pid, "replay", [a.replay], 300)
        if r is None or "error" in (r or {}):
            print(f"replay: harness error: {r}")
            sys.exit(3)
        if r.get("violation"):
            print(f"VIOLATION property={pid} replay={a.replay}")
            print("  " + str(r.get("detail", ""))[:600])
            sys.exit(1)
        print(f"replay of {a.replay}: property holds on the current tree ({r.get('detail','')})")
        sys.exit(0)

    from contracts.properties import PROPS
    from contracts import build_registry
    from pyvc.world import World
    if pid not in PROPS:
        print(f"property {pid} is not claimed (see MANIFEST.not_applicable)")
        sys.exit(3)
    P = PROPS[pid]
    world = World()
    reg = build_registry(world)
    quals = list(P["functions"])
    nproc = max(1, min(len(quals), 12))
    os.environ.setdefault("PYVC_THREADS", "2")
    with mp.Pool(nproc) as pool:
        results = pool.map(_verify_one, quals)

    # ---- census obligations (syntactic, whole package)
    census = []
    for (name, fn) in P.get("census", []):
        ok, detail = fn(world)
        census.append({"id": f"census:{name}", "kind": "census", "status": "discharged" if ok else "failed",
                       "backend": "ast", "seconds": 0.0, "model": detail, "path": ""})

    known = json.load(open(os.path.join(HERE, "known_findings.json")))["entries"]
    open_findings = [k for k in known if k["status"] == "open" and (k["property"] == pid or pid in k.get("also_properties", []))]
    fixed_findings = [k for k in known if k["status"] == "fixed" and (k["property"] == pid or pid in [x for x in k.get("also", []) if x.startswith("C")])]

    clause_filter = P.get("clauses")
    obligations = []
    untranslatable = []
    fuc = []
    for r in results:
        spec = reg.specs.get(r["qual"])
        fuc.append({"function": r["qual"], "file": r.get("file"), "lines": r.get("lines"), "status": r["status"],
                    "paths": r.get("paths"), "nodes_translated": r.get("nodes_translated"), "dropped": r.get("dropped"),
                    "obligations": len(r["obligations"]), "wall_s": round(r.get("wall_s", 0), 2)})
        if r["status"] != "ok":
            untranslatable.append({"function": r["qual"], "reason": r.get("reason", "")[-600:]})
            continue
        for o in r["obligations"]:
            if clause_filter and not clause_filter(r["qual"], o):
                continue
            obligations.append(o)
    obligations += census

    # ---- lock file: every expected obligation id must have been generated
    lock_path = os.path.join(HERE, "contracts", "obligations.lock")
    lock = json.load(open(lock_path)) if os.path.exists(lock_path) else {}
    ids_now = sorted({o["id"] for o in obligations})
    if a.relock:
        import fcntl
        with open(lock_path + ".flock", "w") as lf:
            fcntl.flock(lf, fcntl.LOCK_EX)          # several relocks may run side by side
            lock = json.load(open(lock_path)) if os.path.exists(lock_path) else {}
            lock[pid] = ids_now
            json.dump(lock, open(lock_path, "w"), indent=0, sort_keys=True)
        print(f"relocked {pid}: {len(ids_now)} obligation ids")
    missing = [i for i in lock.get(pid, []) if i not in ids_now]
    missing_funcs = sorted({i.split("#")[0] for i in missing})
    ut_funcs = {u["function"] for u in untranslatable}
    for f in missing_funcs:
        if f not in ut_funcs and not f.startswith("census"):
            untranslatable.append({"function": f, "reason": "locked obligation ids not generated on this tree: " + ", ".join(i for i in missing if i.startswith(f))[:400]})

    # ---- classify
    def excluded(o):
        # only the exact obligations a finding lists are attributed to it (its region is excluded by assumption
        # in the contracts, so on the unchanged tree these are discharged anyway; PYVC_NO_EXCLUDE=1 shows them failing)
        for k in open_findings:
            if o["id"] in k.get("obligation_ids", []):
                return k
        return None
    bad = [o for o in obligations if o["status"] != "discharged"]
    bad_known = [(o, excluded(o)) for o in bad if excluded(o)]
    bad_new = [o for o in bad if not excluded(o)]
    n_obl = len(obligations)
    n_dis = sum(1 for o in obligations if o["status"] == "discharged")
    by_backend = {}
    for o in obligations:
        b = by_backend.setdefault(o.get("backend", "?"), {"count": 0, "seconds": 0.0})
        b["count"] += 1
        b["seconds"] = round(b["seconds"] + o.get("seconds", 0), 3)

    violations = []
    lines = []
    exit_code = 0
    if n_obl == 0 and not untranslatable:
        print("checker broken: zero obligations generated")
        sys.exit(3)

    # ---- known findings: witness must still reproduce
    kf_report = []
    for k in open_findings:
        w = os.path.join(HERE, k["witness"])
        p = subprocess.run([VENV_PY, w], capture_output=True, text=True, timeout=120, cwd=os.path.dirname(w))
        reproduces = p.returncode == 1
        kf_report.append({"id": k["id"], "obligation": k["obligation"], "excluded_region": k["excluded_region"],
                          "witness": k["witness"], "witness_reproduces": reproduces})
        if reproduces:
            lines.append(f"KNOWN-FINDING: property={pid} {k['id']} {k['what']}")
        else:
            lines.append(f"note: known finding {k['id']} no longer reproduces with its witness ({k['witness']})")
    # ---- fixed findings: witness must hold (regression)
    for k in fixed_findings:
        wl = [k["witness"]] + [x for x in k.get("also", []) if x.endswith(".py")]
        for wrel in wl:
            w = os.path.join(HERE, wrel)
            p = subprocess.run([VENV_PY, w], capture_output=True, text=True, timeout=120, cwd=os.path.dirname(w))
            if p.returncode == 1:
                rp = write_replay(pid, f"regression-{k['id']}", {"witness": wrel, "obligation": k["obligation"],
                                                                  "output": p.stdout[-1500:]}, kind="witness")
                violations.append({"obligation": k["obligation"], "replay": rp, "input_found": True,
                                   "detail": f"fixed defect {k['id']} is back: {p.stdout.strip()[-300:]}"})
            elif p.returncode != 0:
                lines.append(f"note: witness {wrel} could not run (exit {p.returncode})")

    # ---- native harness: sanity run (anti-vacuity) + counterexample search for failed obligations
    budget = "thorough" if a.tier == "thorough" else "quick"
    hres = run_harness(pid, "search", ["--seed", str(seed), "--budget", budget], 3000 if budget == "thorough" else 600)
    bounded = None
    if hres is not None:
        bounded = {k: hres.get(k) for k in ("evaluations", "distinct", "scope", "error") if k in hres}
        if hres.get("violation"):
            inp = hres.get("input")
            if not harness_known(hres, open_findings):
                rp = write_replay(pid, "harness", {"input": inp, "detail": hres.get("detail"),
                                                   "obligations": [o["id"] for o in bad_new][:20]}, kind="input")
                violations.append({"obligation": (bad_new[0]["id"] if bad_new else "(bounded harness)"), "replay": rp,
                                   "input_found": True, "detail": str(hres.get("detail"))[:400]})
    covered = bool(violations)
    if bad_new and not covered:
        # undischarged obligations without a concrete failing input
        groups = {}
        for o in bad_new:
            groups.setdefault(o["id"], []).append(o)
        rp = write_replay(pid, "obligations", {"failed_obligations": [
            {"id": i, "status": g[0]["status"], "backend": g[0].get("backend"), "paths": [x["path"] for x in g],
             "solver_output": (g[0].get("model") or g[0].get("reason") or "")[:3000], "smt2_tail": g[0].get("smt2_tail", "")[-1200:]}
            for i, g in groups.items()]}, kind="obligation")
        violations.append({"obligation": sorted(groups)[0], "replay": rp, "input_found": False,
                           "detail": f"{len(groups)} obligation(s) not discharged: " + ", ".join(sorted(groups))[:600]})

    proved = (not untranslatable) and not bad
    level = P.get("level", "proof") if proved or (not untranslatable and not bad_new) else "other"
    ev = {
        "property_id": pid, "tier": a.tier, "seed": seed, "level": level,
        "coverage": {
            "obligations": n_obl, "discharged": n_dis,
            "checker_cmd": f"./check {pid} --tier {a.tier}  (pyvc: ast of {world.src} -> VCs -> z3 5.1 API / cvc5 1.0 / z3 4.8)",
            "trusted_base": sorted(set(P.get("trusted", [])) | {u for o in obligations for u in o.get("uses", [])}),
            "explanation": P.get("explanation", ""),
            "functions_under_contract": fuc,
            "by_backend": by_backend,
            "solver_seconds": round(sum(o.get("seconds", 0) for o in obligations), 3),
            "not_discharged": [{"id": o["id"], "status": o["status"], "path": o.get("path")} for o in bad][:50],
            "known_findings": kf_report,
            "untranslatable": untranslatable,
            "bounded": bounded,
            "undecided_clauses": P.get("undecided", []),
            "canaries": sum(1 for o in obligations if o.get("kind") == "canary"),
            "samples": [{"id": o["id"], "status": o["status"], "backend": o.get("backend"), "seconds": o.get("seconds")}
                        for o in obligations[:: max(1, len(obligations) // 8)]][:10],
            "evaluations": (bounded or {}).get("evaluations") or n_obl,
            "distinct_nontrivial": (bounded or {}).get("distinct") or len(ids_now),
            "rule": "obligations: one per contract clause per path through the real function body; bounded harness cases: see 'bounded'",
        },
        "assumptions": P.get("assumptions", []),
        "wall_s": round(time.time() - t0, 2),
        "violations": len(violations),
    }
    # ---- thorough tier: the checker checks itself - the property-breaking changes kept under seeded/ must still be reported
    selftest_failed = []
    if a.tier == "thorough" and not violations and os.environ.get("VERIF_SELFTEST") != "1":
        st_rep = checker_self_test(pid)
        ev["coverage"]["checker_self_test"] = st_rep
        selftest_failed = [r["change"] for r in st_rep if r["applied"] and not r["detected"]]
        ev["wall_s"] = round(time.time() - t0, 2)
    # self-tests on scratch copies (selftest/*.sh) set VERIF_OUT so that they never overwrite the evidence of the real tree
    outdir = os.environ.get("VERIF_OUT", HERE)
    os.makedirs(os.path.join(outdir, "evidence"), exist_ok=True)
    json.dump(ev, open(os.path.join(outdir, "evidence", f"{pid}.json"), "w"), indent=1)

    for ln in lines:
        print(ln)
    print(f"{pid}: {n_dis}/{n_obl} obligations discharged over {len(fuc)} functions"
          f"{' ; untranslatable: ' + ', '.join(u['function'] for u in untranslatable) if untranslatable else ''}"
          f" ; bounded harness: {bounded}")
    if violations:
        for v in violations:
            suffix = "" if v["input_found"] else " no-failing-input-found"
            print(f"VIOLATION property={pid} replay={v['replay']}{suffix}")
            print(f"  obligation: {v['obligation']}")
            print(f"  {v['detail']}")
        sys.exit(1)
    if hres is not None and "error" in hres:
        print(f"checker broken: harness error: {hres['error']}")
        sys.exit(3)
    if selftest_failed:
        print(f"checker broken: seeded property-breaking change(s) no longer detected: {', '.join(selftest_failed)}")
        sys.exit(3)
    sys.exit(0)


def checker_self_test(pid):
    """apply every seeded/<pid>-m*/patch.diff to a scratch copy of the source tree under test and run the quick check there: it must
    report a violation (exit 1).  A patch that no longer applies to the current tree is skipped (reported as not applied)."""
    import glob, shutil, tempfile
    from concurrent.futures import ThreadPoolExecutor
    src = os.environ.get("VERIF_REPO_SRC", "/repo/src")

    def one(pdir):
        name = os.path.basename(pdir)
        d = tempfile.mkdtemp(prefix="pyvc-selftest.")
        try:
            shutil.copytree(src, os.path.join(d, "repo", "src"))
            p = subprocess.run(["patch", "-p1", "-s", "-i", os.path.join(pdir, "patch.diff")], cwd=os.path.join(d, "repo"),
                               capture_output=True, text=True)
            if p.returncode != 0:
                return {"change": name, "applied": False, "detected": False}
            env = dict(os.environ, VERIF_REPO_SRC=os.path.join(d, "repo", "src"), VERIF_OUT=os.path.join(d, "out"), VERIF_SELFTEST="1")
            r = subprocess.run([sys.executable, os.path.join(HERE, "check.py"), pid, "--tier", "quick"], env=env, capture_output=True,
                               text=True, cwd=HERE)
            return {"change": name, "applied": True, "detected": r.returncode == 1, "exit": r.returncode}
        finally:
            shutil.rmtree(d, ignore_errors=True)
    dirs = sorted(glob.glob(os.path.join(HERE, "seeded", pid + "-m*")))
    with ThreadPoolExecutor(2) as ex:
        return list(ex.map(one, dirs))


def harness_known(hres, open_findings) -> bool:
    tag = hres.get("finding")
    return bool(tag) and any(k["id"] == tag for k in open_findings)


def write_replay(pid, label, payload, kind):
    d = os.path.join(os.environ.get("VERIF_OUT", HERE), "replay", "out")
    os.makedirs(d, exist_ok=True)
    path = os.path.join(d, f"{pid}-{label}.json")
    payload = dict(payload)
    payload["property"] = pid
    payload["kind"] = kind
    json.dump(payload, open(path, "w"), indent=1, default=str)
    return os.path.relpath(path, HERE)


if __name__ == "__main__":
    main()
