"""Role anchors: bind contract vocabulary to the real AST by role, not by line or local name (DESIGN 2.6)."""
from __future__ import annotations
import ast
from .state import Untranslatable


def returned_name(fnode) -> str:
    """the local variable returned by the function's last top-level `return <name>`"""
    for s in reversed(fnode.body):
        if isinstance(s, ast.Return) and isinstance(s.value, ast.Name):
            return s.value.id
    raise Untranslatable("role returned_name(): no top-level `return <name>`")


def loop_target_names(fnode, k: int) -> list[str]:
    n = _loops(fnode)[k]        # loops of this function only (not of nested functions), in source order: the engine's loop ordinal
    if isinstance(n, ast.While):
        return []
    return [x.id for x in ast.walk(n.target) if isinstance(x, ast.Name)]


def assigned_from_call(fnode, callee: str, k: int = 0) -> str:
    """name assigned from the k-th call of `callee(...)` / `<x>.callee(...)` (source order)"""
    hits = []
    for n in ast.walk(fnode):
        if isinstance(n, (ast.Assign, ast.AnnAssign)) and n.value is not None:
            v = n.value
            if isinstance(v, ast.IfExp):
                cands = [v.body, v.orelse]
            else:
                cands = [v]
            for c in cands:
                if isinstance(c, ast.Await):
                    c = c.value
                if isinstance(c, ast.Call):
                    f = c.func
                    name = f.id if isinstance(f, ast.Name) else (f.attr if isinstance(f, ast.Attribute) else None)
                    if name == callee:
                        tgt = n.targets[0] if isinstance(n, ast.Assign) else n.target
                        if isinstance(tgt, ast.Name):
                            hits.append((n.lineno, tgt.id))
    hits.sort()
    if k >= len(hits):
        raise Untranslatable(f"role assigned_from_call({callee},{k}) not found")
    return hits[k][1]


def _loops(fnode):
    out = []
    stack = list(ast.iter_child_nodes(fnode))
    while stack:
        n = stack.pop()
        if isinstance(n, (ast.FunctionDef, ast.AsyncFunctionDef, ast.ClassDef, ast.Lambda)):
            continue
        if isinstance(n, (ast.For, ast.AsyncFor, ast.While)):
            out.append(n)
        stack.extend(ast.iter_child_nodes(n))
    out.sort(key=lambda n: (n.lineno, n.col_offset))
    return out


def loop_iter_name(fnode, k: int) -> str:
    """the local name iterated by the k-th loop (`for x in <name>` / `for x in list(<name>)`)"""
    n = _loops(fnode)[k]
    it = n.iter
    if isinstance(it, ast.Call) and isinstance(it.func, ast.Name) and it.func.id in ("list", "tuple") and it.args:
        it = it.args[0]
    if isinstance(it, ast.Name):
        return it.id
    raise Untranslatable(f"role loop_iter_name({k}): loop does not iterate a local name")


def n_loops(fnode) -> int:
    return len(_loops(fnode))


def appended_in_handler(fnode, exc_name: str) -> str:
    """the local list `X` of `except <exc_name> as e: X.append(e)`"""
    for n in ast.walk(fnode):
        if isinstance(n, ast.ExceptHandler) and n.name:
            for m in ast.walk(n):
                if (isinstance(m, ast.Call) and isinstance(m.func, ast.Attribute) and m.func.attr == "append"
                        and isinstance(m.func.value, ast.Name) and len(m.args) == 1
                        and isinstance(m.args[0], ast.Name) and m.args[0].id == n.name):
                    return m.func.value.id
    raise Untranslatable(f"role appended_in_handler({exc_name}) not found")


def with_target(fnode, callee: str) -> str:
    """the name bound by `with <callee>(...) as <name>` (first such item in source order)"""
    for n in ast.walk(fnode):
        if isinstance(n, (ast.With, ast.AsyncWith)):
            for it in n.items:
                c = it.context_expr
                if isinstance(c, ast.Call):
                    f = c.func
                    nm = f.id if isinstance(f, ast.Name) else (f.attr if isinstance(f, ast.Attribute) else None)
                    if nm == callee and isinstance(it.optional_vars, ast.Name):
                        return it.optional_vars.id
    raise Untranslatable(f"role with_target({callee}) not found")


def assigned_dict_name(fnode, k: int = 0) -> str:
    """the local dict `X` of the statement `X[<key>] = <value>` inside the k-th loop"""
    n = _loops(fnode)[k]
    for m in ast.walk(n):
        if isinstance(m, ast.Assign) and len(m.targets) == 1 and isinstance(m.targets[0], ast.Subscript) and isinstance(m.targets[0].value, ast.Name):
            return m.targets[0].value.id
    raise Untranslatable(f"role assigned_dict_name({k}) not found")


def assigned_from_listcomp(fnode, k: int = 0) -> str:
    """the local name assigned from the k-th list comprehension (source order)"""
    hits = []
    for n in ast.walk(fnode):
        if isinstance(n, ast.Assign) and isinstance(n.value, ast.ListComp) and len(n.targets) == 1 and isinstance(n.targets[0], ast.Name):
            hits.append((n.lineno, n.targets[0].id))
    hits.sort()
    if k >= len(hits):
        raise Untranslatable(f"role assigned_from_listcomp({k}) not found")
    return hits[k][1]


def unpack_targets_from_call(fnode, callee: str, k: int = 0) -> list[str]:
    """the names a, b of `a, b = <x>.callee(...)` (k-th such statement)"""
    hits = []
    for n in ast.walk(fnode):
        if (isinstance(n, ast.Assign) and len(n.targets) == 1 and isinstance(n.targets[0], ast.Tuple) and isinstance(n.value, ast.Call)
                and isinstance(n.value.func, ast.Attribute) and n.value.func.attr == callee
                and all(isinstance(e, ast.Name) for e in n.targets[0].elts)):
            hits.append((n.lineno, [e.id for e in n.targets[0].elts]))
    hits.sort()
    if k >= len(hits):
        raise Untranslatable(f"role unpack_targets_from_call({callee},{k}) not found")
    return hits[k][1]


def diagnostic_joins(fnode) -> tuple:
    """source text of the `<sep>.join(<generator expression>)` calls of a function (strings are atoms: the result is an opaque string)"""
    out = []
    for n in ast.walk(fnode):
        if (isinstance(n, ast.Call) and isinstance(n.func, ast.Attribute) and n.func.attr == "join" and len(n.args) == 1
                and isinstance(n.args[0], ast.GeneratorExp)):
            out.append(ast.unparse(n))
    return tuple(out)


def list_indexed_last_in_store(fnode) -> str:
    """the list `X` of the statement `<container>[X[-1]] = <value>`"""
    for n in ast.walk(fnode):
        if isinstance(n, ast.Assign) and len(n.targets) == 1 and isinstance(n.targets[0], ast.Subscript):
            sl = n.targets[0].slice
            if (isinstance(sl, ast.Subscript) and isinstance(sl.value, ast.Name) and isinstance(sl.slice, ast.UnaryOp)
                    and isinstance(sl.slice.op, ast.USub) and isinstance(sl.slice.operand, ast.Constant) and sl.slice.operand.value == 1):
                return sl.value.id
    raise Untranslatable("role list_indexed_last_in_store() not found")


def unpack_targets(fnode, callee: str, k: int = 0) -> list[str]:
    """the names a, b of `a, b = callee(...)` / `callee[T](...)` / `<x>.callee(...)` (k-th such statement)"""
    hits = []
    for n in ast.walk(fnode):
        if (isinstance(n, ast.Assign) and len(n.targets) == 1 and isinstance(n.targets[0], ast.Tuple) and isinstance(n.value, ast.Call)
                and all(isinstance(e, ast.Name) for e in n.targets[0].elts)):
            f = n.value.func
            if isinstance(f, ast.Subscript):
                f = f.value
            name = f.id if isinstance(f, ast.Name) else (f.attr if isinstance(f, ast.Attribute) else None)
            if name == callee:
                hits.append((n.lineno, [e.id for e in n.targets[0].elts]))
    hits.sort()
    if k >= len(hits):
        raise Untranslatable(f"role unpack_targets({callee},{k}) not found")
    return hits[k][1]
