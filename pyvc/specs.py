"""Contract vocabulary: FnSpec (sidecar contract of one function in /repo/src), Frame (what a clause sees),
LoopCtx (what a loop invariant sees), Registry (all contracts + schema + rely/guarantee + class invariants)."""
from __future__ import annotations

import ast
import z3
from .smt import *
from .state import *
from . import comps


class Frame:
    """Two-state view for pre/postconditions: old = state at call, new = state at return/raise."""

    def __init__(self, eng, old_st: State, new_st: State, args: dict[str, SV], result: SV | None = None, exc: SV | None = None):
        self.eng = eng
        self.old_st = old_st
        self.new_st = new_st
        old_st.name_heap()
        new_st.name_heap()
        if new_st is not old_st:
            new_st.import_defs(old_st)
        self.old = HeapView(old_st.heap)
        self.new = HeapView(new_st.heap)
        self.args = args
        self.result = result
        self.exc = exc
        self.ghost: dict = {}

    def __getitem__(self, name) -> SV:
        return self.args[name]

    def t(self, name):
        return self.args[name].t

    def addr(self, name):
        return Val.a(self.args[name].t)

    def exc_is(self, cls: str):
        return subcls(self.new.fld("__class__", Val.a(self.exc.t)), con(cls))

    def exc_cls(self):
        return self.new.fld("__class__", Val.a(self.exc.t))

    def all_same(self, except_=()):
        """the whole heap is unchanged (no effect at all)"""
        return z3.And(*[self.new.heap[c] == self.old.heap[c] for c in self.new.heap
                        if c not in except_ and c not in ("w_dict", "mycalls") and not c.startswith("fld:cell:")])

    def same(self, *comps_):
        """listed heap components are identical in old and new"""
        return z3.And(*[self.new.heap[c] == self.old.heap[c] for c in comps_])

    def same_at(self, comp, a):
        return z3.Select(self.new.heap[comp], a) == z3.Select(self.old.heap[comp], a)

    def only_changed_at(self, comp, addrs):
        """comp differs from old only at the listed addresses and at objects allocated since"""
        x = z3.Const("x!frame", I)
        cond = [x < self.old.alloc, x >= 0] + [x != a for a in addrs]
        return z3.ForAll([x], z3.Implies(z3.And(*cond),
                                         z3.Select(self.new.heap[comp], x) == z3.Select(self.old.heap[comp], x)),
                         patterns=[z3.Select(self.new.heap[comp], x)])

    def fresh(self, t):
        """t is a reference allocated during the call"""
        return z3.And(Val.is_ref(t), Val.a(t) >= self.old.alloc, Val.a(t) < self.new.alloc)


class LoopCtx:
    def __init__(self, eng, entry: State, cur: State, it: dict):
        self.eng = eng
        self.entry_st = entry
        self.cur_st = cur
        entry.name_heap()
        cur.name_heap()
        if cur is not entry:
            cur.import_defs(entry)
        self.entry = HeapView(entry.heap)
        self.cur = HeapView(cur.heap)
        self.it = it

    def v(self, name) -> SV:
        return self.cur_st.env[name]

    def has(self, name) -> bool:
        return name in self.cur_st.env

    def v0(self, name) -> SV:
        return self.entry_st.env[name]


class FnSpec:
    """Contract of one function.  Subclass and override; attach by `qual`."""
    qual: str = ""
    param_types: dict = {}
    ret_type: Ty = ANY
    modifies = frozenset()          # heap components the function may write (besides 'alloc'); 'rely' = unknown, under rely
    may_raise: bool = True
    suspends: bool = False
    loops: dict = {}
    cell_types: dict = {}
    assumed: str | None = None      # id of an assumed (library) contract: never verified, listed as trusted
    check_guarantee: bool = True
    result_owned: str | None = None  # kind ('dict', 'list', ...) of a fresh result nobody else holds: the caller owns it until it escapes
    frame_rule: bool = False        # discharge invariants after private container writes by the frame lemma (calls.frame_lemmas)
    suspended_invariants: frozenset = frozenset()
    returns_coroutine_ok = False
    properties: tuple = ()          # property ids this contract serves
    clause_props: dict = {}         # clause name -> tuple of property ids (default: all of `properties`)
    verify: bool = True

    def requires(self, F: Frame):
        return []

    def ensures(self, F: Frame):
        return []

    def raises(self, F: Frame):
        return []

    def pure_when(self, F: Frame):
        """condition over the entry state under which the call has no effect on any existing object (or None)"""
        return None

    def local_ensures(self, F: Frame):
        """verification-only clauses about this activation itself (write log, own call counts, path trace)"""
        return []

    def local_raises(self, F: Frame):
        return []

    def call_site_extra(self, F: Frame):
        """facts available to callers only (definitional folding of history predicates)"""
        return []

    def init_ghost(self, eng, st: State):
        pass

    def ghost_exit(self, eng, st: State, kind: str):
        """ghost code at an exit of the verified body (kind: 'return' | 'raise'); may write ghost components"""
        pass

    def ghost_outputs(self, eng, st: State) -> dict:
        """ghost results of the verified body, bound by role from the exit state (e.g. the resolved type tuple)"""
        return {}

    def fresh_ghost_outputs(self, eng, st: State) -> dict:
        """the same ghost results as unknowns, for call sites"""
        return {}

    # monitors (ghost code at semantic events)
    def on_opaque_call(self, eng, st, f, args, anchor):
        pass

    def after_opaque_call(self, eng, st_before, st_after, f, args, result, exc, anchor):
        pass

    def on_await(self, eng, st, awaited, anchor):
        pass

    def after_await(self, eng, st_before, st_after, awaited, result, exc, anchor):
        pass

    def on_event(self, eng, st, event):
        pass

    def bind(self, pos, kw):
        raise Untranslatable(f"{self.qual}: library contract without binder")


class Registry:
    """All contracts for one run (built by contracts/__init__.py)."""

    def __init__(self):
        self.specs: dict[str, FnSpec] = {}
        self.schema: dict[str, dict[str, Ty]] = {}       # class -> field -> type
        self.lib_schema: dict[str, dict[str, Ty]] = {}
        self.lib_classes: set[str] = set()
        self.lib_methods: dict[str, object] = {}          # "Class.meth" -> handler(eng, st, recv, pos, kw, node, awaited)
        self.lib_cms: dict[str, tuple] = {}               # lib class -> (enter(eng, st, cm, is_async, item), exit(eng, outcome, cm, is_async, item))
        self.func_calls: dict[str, object] = {}           # repo function qual -> handler(eng, st, pos, kw, node) (e.g. CM factories)
        self.run_exit_stack = None
        self.with_rely: dict[str, object] = {}            # class -> fn(old, new, addr): what stays true of an object while this
                                                          # activation is inside `with obj` (only the entering task leaves it)
        self.ext_calls: dict[str, object] = {}            # dotted external function -> handler(eng, st, pos, kw, node)
        self.guarantees: list = []                        # (name, fn(old, new))
        self.invariants: list = []                        # (name, fn(heapview))
        self.extra_rely: list = []                        # (name, fn(old,new)) environment-only clauses
        self.immutable_fields: set[str] = set()           # field names never written after construction
        self.unset_fields: set[str] = set()               # fields that may be unset (hasattr)
        self.exc_arg_names: dict[str, list[str]] = {}
        self.exc_field_types: dict[str, Ty] = {}
        self.global_types: dict[str, Ty] = {}
        self.global_addrs: dict[str, int] = {}
        self.ghost_comps: dict[str, object] = {}          # extra heap components (ghost)
        self.builtin_ext: dict[str, list[str]] = {}
        self.signal_decls: dict[tuple[str, str], int] = {}
        self._axioms: list = []
        self.assumptions_text: dict[str, str] = {}        # id -> description (trusted base)

    def add(self, spec_cls):
        s = spec_cls() if isinstance(spec_cls, type) else spec_cls
        self.specs[s.qual] = s
        return spec_cls

    # ---- schema
    def field_type(self, world, cls: str, attr: str):
        for c in world.mro(cls) or [cls]:
            t = self.schema.get(c, {}).get(attr)
            if t is not None:
                return t
        return None

    def lib_field_type(self, cls, attr):
        return self.lib_schema.get(cls, {}).get(attr)

    def self_type(self, world, qual):
        fi = world.funcs.get(qual)
        return INST(fi.cls) if fi and fi.cls else ANY

    def method_names_with_specs(self, world):
        return {q.rsplit(".", 1)[-1] for q in self.specs}

    # ---- heap layout
    def components(self, world):
        comps_ = {"alloc": I}
        comps_.update(COLL_COMPS)
        names = set(world.all_attr_names()) | {"__class__", "__cause__", "exceptions", "arg0", "arg1", "arg2", "cell:__parent__"}
        for sch in list(self.schema.values()) + list(self.lib_schema.values()):
            names |= set(sch)
        for lst in self.exc_arg_names.values():
            names |= set(lst)
        for n in sorted(names):
            comps_["fld:" + n] = AV
        # cells of closures
        for q, fi in world.funcs.items():
            for n in ast.walk(fi.node):
                if isinstance(n, ast.Name):
                    comps_.setdefault("fld:cell:" + n.id, AV)
                elif isinstance(n, ast.arg):
                    comps_.setdefault("fld:cell:" + n.arg, AV)
        for n in self.unset_fields:
            comps_["set:" + n] = AB
        comps_.update(self.ghost_comps)
        return comps_

    def class_axioms(self, world):
        """subclass lattice of the repository's (non-exception) classes"""
        ax = []
        names = [c for c in world.classes if not world.is_exception_class(c)] + sorted(self.lib_classes)
        for a in names:
            anc = set(world.mro(a)) if a in world.classes else {a}
            ax.append(closed_class_axiom(a, anc))
        c = z3.Const("c!cls", Val)
        for a in names:
            if a in world.classes:
                for b in world.classes[a].bases:
                    if b in world.classes:
                        ax.append(z3.ForAll([c], z3.Implies(subcls(c, con(a)), subcls(c, con(b))), patterns=[subcls(c, con(a))]))
        return ax

    def extra_axioms(self):
        return list(self._axioms) + comps.tmem_axioms()

    def rely_clauses(self, eng):
        """what foreign code may do between two states: the guarantees of every asphalt operation,
        immutability of construction-time fields, and environment-only clauses"""
        out = list(self.guarantees) + list(self.extra_rely)
        x = z3.Const("x!imm", I)

        def imm(comp):
            def fn(old, new):
                return z3.ForAll([x], z3.Implies(x < old.alloc,
                                                 z3.Select(new.heap[comp], x) == z3.Select(old.heap[comp], x)),
                                 patterns=[z3.Select(new.heap[comp], x)])
            return fn
        def imm_cls(cls, f):
            def fn(old, new):
                return z3.ForAll([x], z3.Implies(z3.And(x < old.alloc, subcls(z3.Select(old.heap["fld:__class__"], x), con(cls))),
                                                 z3.Select(new.heap["fld:" + f], x) == z3.Select(old.heap["fld:" + f], x)),
                                 patterns=[z3.Select(new.heap["fld:" + f], x)])
            return fn
        for item in sorted(self.immutable_fields, key=str):
            if isinstance(item, tuple):
                out.append((f"immutable:{item[0]}.{item[1]}", imm_cls(*item)))
            else:
                out.append((f"immutable:{item}", imm("fld:" + item)))
        out.append(("immutable:__class__", imm("fld:__class__")))
        out.append(("immutable:tuple-len", imm("t_len")))
        out.append(("immutable:tuple-items", imm("t_item")))
        for f in sorted(self.unset_fields):
            # once set, stays set
            def mono(old, new, f=f):
                return z3.ForAll([x], z3.Implies(z3.And(0 <= x, x < old.alloc, z3.Select(old.heap["set:" + f], x)),
                                                 z3.Select(new.heap["set:" + f], x)),
                                 patterns=[z3.Select(new.heap["set:" + f], x)])
            out.append((f"set-monotone:{f}", mono))
        return out

    def global_ref(self, name: str):
        """module-level objects live at fixed negative addresses (never allocated, never fresh)"""
        if name not in self.global_addrs:
            self.global_addrs[name] = -(len(self.global_addrs) + 1000)
        return vref(z3.IntVal(self.global_addrs[name]))

    def signal_decl(self, cls: str, attr: str) -> SV:
        return SV(self.global_ref(f"signal:{cls}.{attr}"), INST("Signal"))

    def comprehension_handler(self, eng, e, kind, mode):
        return lambda eng_, st, src, e_, gen: comps.generic(eng_, st, src, e_, gen, kind, mode)

    def lib_call(self, eng, st, name, recv, pos, kw, node, awaited):
        h = self.lib_methods.get(name)
        if h is None:
            raise Untranslatable(f"library method {name} has no assumed contract")
        return h(eng, st, recv, pos, kw, node, awaited)

    def default_factory(self, eng, st, node: ast.expr) -> SV:
        name = node.id if isinstance(node, ast.Name) else ast.unparse(node)
        name = getattr(self, "default_factory_alias", {}).get(name, name)
        if name == "set":
            return SV(vref(st.new_set()), SET())
        if name == "list":
            return SV(vref(st.new_list()), LIST())
        if name == "dict":
            return SV(vref(st.new_dict()), DICT())
        if name in self.lib_classes:
            a = st.new_ref(owned=False)
            st.set_fld("__class__", a, con(name))
            h = self.lib_methods.get(name + ".__init__")
            if h is not None:
                h(eng, st, SV(vref(a), LIB(name)), [], {}, None, False)
            return SV(vref(a), LIB(name))
        raise Untranslatable(f"default_factory {name}")
