"""Verify one function against its contract: generate obligations from the real AST, discharge them."""
from __future__ import annotations

import ast
import os
import subprocess
import tempfile
import time
import traceback
import z3

from .smt import *
from .state import *
from .world import World
from .engine import EngineBase
from .stmts import StmtMixin
from .calls import CallMixin
from .builtins import BuiltinMixin
from .specs import Frame, FnSpec

TIMEOUT_MS = int(os.environ.get("PYVC_TIMEOUT_MS", "10000"))
THREADS = int(os.environ.get("PYVC_THREADS", "2"))
THOROUGH = os.environ.get("VERIF_TIER", "quick") == "thorough"


class Engine(EngineBase, StmtMixin, CallMixin, BuiltinMixin):
    pass


def bound_names(fnode) -> set[str]:
    names = set()
    a = fnode.args
    for x in a.posonlyargs + a.args + a.kwonlyargs:
        names.add(x.arg)
    if a.vararg:
        names.add(a.vararg.arg)
    if a.kwarg:
        names.add(a.kwarg.arg)
    if isinstance(fnode, ast.Lambda):
        return names
    stack = list(fnode.body)
    while stack:
        n = stack.pop()
        if isinstance(n, (ast.FunctionDef, ast.AsyncFunctionDef)):
            names.add(n.name)
            continue
        if isinstance(n, ast.ClassDef):
            names.add(n.name)
            continue
        if isinstance(n, ast.Lambda):
            continue
        if isinstance(n, ast.Name) and isinstance(n.ctx, (ast.Store, ast.Del)):
            names.add(n.id)
        if isinstance(n, ast.ExceptHandler) and n.name:
            names.add(n.name)
        if isinstance(n, (ast.Import, ast.ImportFrom)):
            for al in n.names:
                names.add((al.asname or al.name).split(".")[0])
        stack.extend(ast.iter_child_nodes(n))
    nl = set()
    for n in ast.walk(fnode):
        if isinstance(n, ast.Nonlocal) and n in getattr(fnode, "body", []):
            nl |= set(n.names)
    for n in getattr(fnode, "body", []):
        if isinstance(n, ast.Nonlocal):
            nl |= set(n.names)
    return names - nl


def referenced_in_nested(fnode) -> set[str]:
    out = set()
    body = fnode.body if isinstance(fnode.body, list) else [fnode.body]
    stack = list(body)
    while stack:
        n = stack.pop()
        if isinstance(n, (ast.FunctionDef, ast.AsyncFunctionDef, ast.Lambda)):
            for m in ast.walk(n):
                if isinstance(m, ast.Name):
                    out.add(m.id)
            continue
        stack.extend(ast.iter_child_nodes(n))
    return out


def nonlocal_names(fnode) -> set[str]:
    out = set()
    for n in ast.walk(fnode):
        if isinstance(n, ast.Nonlocal):
            out |= set(n.names)
    return out


def setup_engine(world, reg, qual) -> tuple[Engine, State, dict]:
    fi = world.funcs[qual]
    spec = reg.specs[qual]
    eng = Engine(world, reg, fi, spec)
    fnode = fi.node
    mine = bound_names(fnode)
    eng.cellvars = mine & referenced_in_nested(fnode)
    # free variables: bound in an enclosing function
    outer_bound = set()
    o = fi.outer
    top = fi
    eng.free_depth = {}          # free variable -> how many closure levels up it is bound (1 = directly enclosing function)
    depth = 0
    while o:
        depth += 1
        ofi = world.funcs[o]
        ob = bound_names(ofi.node)
        for n in ob:
            eng.free_depth.setdefault(n, depth)
        outer_bound |= ob
        top = ofi
        o = ofi.outer
    used = {n.id for n in ast.walk(fnode) if isinstance(n, ast.Name)}
    eng.freevars = (used - mine) & outer_bound
    eng.nonlocal_written = nonlocal_names(top.node)
    eng.my_nonlocals = {n for st_ in fnode.body if isinstance(st_, ast.Nonlocal) for n in st_.names} if isinstance(getattr(fnode, "body", None), list) else set()

    st = State()
    st.heap = eng.fresh_heap("h0")
    st.assume(st.heap["alloc"] >= 0)
    st.heap["w_dict"] = z3.K(I, z3.BoolVal(False))
    st.heap["mycalls"] = z3.K(Val, z3.IntVal(0))
    # parameters
    a = fnode.args
    args: dict[str, SV] = {}
    ptypes = dict(spec.param_types)
    params = [x.arg for x in a.posonlyargs + a.args + a.kwonlyargs]
    for i, n in enumerate(params):
        if i == 0 and fi.cls and n in ("self", "cls") and "staticmethod" not in fi.decorators:
            ty = ptypes.get(n, INST(fi.cls))
        else:
            ty = ptypes.get(n, ANY)
        t = fresh("p_" + n)
        args[n] = eng.typed(st, t, ty)
    if a.vararg:
        n = a.vararg.arg
        t = fresh("p_" + n)
        args[n] = eng.typed(st, t, ptypes.get(n, TUP(ANY)))
        st.assume(st.t_len(Val.a(t)) >= 0)
    if a.kwarg:
        n = a.kwarg.arg
        t = fresh("p_" + n)
        args[n] = eng.typed(st, t, ptypes.get(n, DICT(TSTR, ANY)))
    if fi.outer:
        env = fresh("p_env")
        st.assume(Val.is_ref(env), Val.a(env) >= 0, Val.a(env) < st.alloc)
        args["__env__"] = SV(env, ANY)
        st.ghost["outer_env"] = Val.a(env)
        # this activation's own cell environment, linked to the enclosing one
        st.envref = st.new_ref(owned=True, kind="env")
        st.set_fld("cell:__parent__", st.envref, env)
    else:
        st.envref = st.new_ref(owned=True, kind="env")
    for n, v in args.items():
        if n != "__env__":
            st.env[n] = v
            if n in eng.cellvars:
                st.set_fld("cell:" + n, st.envref, v.t)
    if fi.outer:
        # typing facts of the captured variables the contract declares (they hold when the closure is created)
        for n, ty in getattr(spec, "cell_types", {}).items():
            if n in eng.freevars:
                a_ = st.ghost["outer_env"]
                for _ in range(eng.free_depth.get(n, 1) - 1):
                    a_ = Val.a(st.fld("cell:__parent__", a_))
                eng.typed(st, st.fld("cell:" + n, a_), ty)
    if spec.check_guarantee:
        for entry in reg.invariants:
            eng.assume_invariant(st, entry, HeapView(st.heap))
    st.seg = dict(st.heap)
    return eng, st, args


def verify_function(world, reg, qual) -> dict:
    t0 = time.time()
    if qual == "lemma:frame":
        # the frame lemmas FR(I) / FR(G) used by contracts with frame_rule (calls.frame_lemmas): proved here, once per run
        eng, _, _ = setup_engine(world, reg, "_utils.merge_config")
        lem = eng.frame_lemmas()
        return {"qual": qual, "file": None, "lines": None, "status": "ok", "obligations": list(reg._frame_obls),
                "paths": {"return": 0, "raise": 0}, "nodes_translated": 0, "dropped": {}, "wall_s": time.time() - t0}
    fi = world.funcs.get(qual)
    res = {"qual": qual, "file": fi.file if fi else None, "obligations": [], "status": "ok",
           "lines": [fi.node.lineno, fi.node.end_lineno] if fi else None}
    try:
        if fi is None:
            raise Untranslatable(f"function {qual} not found in the current tree")
        eng, st0, args = setup_engine(world, reg, qual)
        spec = reg.specs[qual]
        entry = st0.copy()
        F0 = Frame(eng, entry, entry, args)
        for (name, f) in spec.requires(F0):
            st0.assume(f)
        st0.import_defs(entry)      # names the frame gave to entry heap components (e.g. alloc) keep their definitions
        spec.init_ghost(eng, st0)
        entry = st0.copy()
        # vacuity guard: the precondition must be satisfiable and must not prove False
        eng.oblige(st0, "canary", "false-not-provable", z3.BoolVal(False), expect="not-unsat")
        body = fi.node.body if isinstance(fi.node.body, list) else [ast.Return(value=fi.node.body, lineno=fi.node.lineno)]
        if hasattr(spec, "run_body"):
            outs = spec.run_body(eng, st0, body, args)
        else:
            outs = eng.exec_block(body, st0)
        n_ret = n_exc = 0
        for o in outs:
            if o.kind in ("break", "continue"):
                raise Untranslatable("break/continue outside loop")
            if o.kind in ("normal", "return"):
                n_ret += 1
                val = o.val if o.kind == "return" and o.val is not None else NONE_SV
                spec.ghost_exit(eng, o.st, "return")
                eng.segment_end(o.st, "exit")
                F = Frame(eng, entry, o.st, args, result=val)
                F.ghost = spec.ghost_outputs(eng, o.st)
                for (name, f) in list(spec.ensures(F)) + list(spec.local_ensures(F)):
                    eng.oblige(o.st, "post", name, f)
                check_frame(eng, spec, entry, o.st, "post")
            else:
                n_exc += 1
                spec.ghost_exit(eng, o.st, "raise")
                eng.segment_end(o.st, "exit-raise")
                F = Frame(eng, entry, o.st, args, exc=o.val)
                F.ghost = spec.ghost_outputs(eng, o.st)
                if not spec.may_raise:
                    eng.oblige(o.st, "exc", "never-raises", z3.BoolVal(False))
                for (name, f) in list(spec.raises(F)) + list(spec.local_raises(F)):
                    eng.oblige(o.st, "exc", name, f)
                check_frame(eng, spec, entry, o.st, "exc")
        res["paths"] = {"return": n_ret, "raise": n_exc}
        res["nodes_translated"] = eng.nodes_translated
        res["dropped"] = eng.dropped
        obls = eng.obls
    except Untranslatable as e:
        res["status"] = "untranslatable"
        res["reason"] = str(e)
        res["wall_s"] = time.time() - t0
        return res
    except Exception as e:
        # an engine error while translating is handled like leaving the subset (never a verdict)
        res["status"] = "untranslatable"
        res["reason"] = "engine error: " + traceback.format_exc()[-1500:]
        res["wall_s"] = time.time() - t0
        return res
    res["gen_s"] = time.time() - t0
    only = os.environ.get("PYVC_ONLY")
    if only:
        obls = [o for o in obls if only in o.id and (os.environ.get("PYVC_PATH") is None or os.environ["PYVC_PATH"] == o.path)]
        if os.environ.get("PYVC_FIRST"):
            obls = obls[:int(os.environ["PYVC_FIRST"])]
    res["obligations"] = discharge_all(obls, eng.axioms)
    res["wall_s"] = time.time() - t0
    return res


def check_frame(eng, spec, entry: State, st: State, kind):
    """everything outside the declared `modifies` set is untouched (one obligation per exit path)"""
    pw = spec.pure_when(Frame(eng, entry, entry, {k: v for k, v in entry.env.items()}))
    if pw is not None:
        # on `pure_when` paths nothing that existed at entry may change, whatever `modifies` says
        x = z3.Const("x!pf", I)
        eqs = []
        for c in eng.comps:
            if c == "alloc" or c.startswith("fld:cell:") or c in ("w_dict", "mycalls"):
                continue
            if st.heap[c] is entry.heap[c] or st.heap[c].eq(entry.heap[c]):
                continue
            if not z3.is_array(st.heap[c]) or st.heap[c].sort().domain() != I:
                eqs.append(st.heap[c] == entry.heap[c])
            else:
                eqs.append(z3.ForAll([x], z3.Implies(z3.And(0 <= x, x < entry.heap["alloc"]),
                                                     z3.Select(st.heap[c], x) == z3.Select(entry.heap[c], x))))
        eng.oblige(st, "frame", "no-effect-when-pure", z3.Implies(pw, z3.And(*eqs) if eqs else z3.BoolVal(True)), kind)
    if spec.modifies == "rely" or spec.suspends:
        return
    eqs, names = [], []
    x = z3.Const("x!fr", I)
    for c in eng.comps:
        if c == "alloc" or c in spec.modifies or c.startswith("fld:cell:") or c in ("w_dict", "mycalls"):
            continue
        if st.heap[c] is entry.heap[c] or st.heap[c].eq(entry.heap[c]):
            continue
        if not z3.is_array(st.heap[c]):
            eqs.append(st.heap[c] == entry.heap[c])
            names.append(c)
            continue
        # objects that existed at entry are untouched (writes to objects allocated by this call are not effects)
        eqs.append(z3.ForAll([x], z3.Implies(z3.And(0 <= x, x < entry.heap["alloc"]),
                                             z3.Select(st.heap[c], x) == z3.Select(entry.heap[c], x))))
        names.append(c)
    if eqs:
        eng.oblige(st, "frame", "only-declared-components-written", z3.And(*eqs), kind)
        eng.notes.append(f"frame check on {len(names)} components: {', '.join(names[:8])}{'...' if len(names) > 8 else ''}")


# ---------------------------------------------------------------------------------- discharge

def discharge_all(obls, axioms) -> list[dict]:
    """Worker threads, each with its own z3 context holding the axioms once; the path condition and goal of
    an obligation are translated into the worker's context (main thread) and solved there (z3 releases the GIL)."""
    from concurrent.futures import ThreadPoolExecutor
    import threading
    if not obls:
        return []
    n = max(1, min(THREADS, len(obls)))
    workers = []
    for _ in range(n):
        ctx = z3.Context()
        workers.append((ctx, [a.translate(ctx) for a in axioms], threading.Lock()))
    jobs = []
    for i, ob in enumerate(obls):
        ctx, ax, lock = workers[i % n]
        hyps = [h.translate(ctx) for h in ob.hyps]
        goal = ob.goal.translate(ctx)
        heavy = [h.translate(ctx) for h in ob.heavy]
        jobs.append((ob, ctx, ax, hyps, goal, lock, heavy))

    nbad = [0]

    def run(j):
        ob, ctx, ax, hyps, goal, lock, heavy = j
        with lock:
            # once a function has many undischarged obligations the rest get a short budget
            r = discharge(ob, ctx, ax, hyps, goal, short=nbad[0] >= 8, heavy=heavy)
            if r["status"] != "discharged":
                nbad[0] += 1
            return r
    with ThreadPoolExecutor(max_workers=n) as ex:
        return list(ex.map(run, jobs))


def _solver(ctx, ax, hyps, extra, seed=0, timeout=None):
    s = z3.Solver(ctx=ctx)
    s.set("timeout", timeout or TIMEOUT_MS)
    if os.environ.get("PYVC_SOLVE_EQS", "0") == "0":
        # keep the heap-snapshot names: z3's equality solving would inline them into quantifier patterns
        s.set("smt.solve_eqs", False)
    if seed:
        s.set("random_seed", seed)
    for h in ax:
        s.add(h)
    for h in hyps:
        s.add(h)
    for h in extra:
        s.add(h)
    return s


def discharge(ob: Obl, ctx, ax, hyps, goal, short=False, heavy=()) -> dict:
    t0 = time.time()
    out = {"id": ob.id, "kind": ob.kind, "path": ob.path, "uses": list(ob.uses), "expect": ob.expect}
    if ob.expect == "unsat":
        # negated goal with select-over-store expanded: exposes the ground terms the quantified hypotheses match on
        ng = z3.simplify(z3.Not(goal), expand_select_store=True)
        backend = "z3-5.1(api)"
        r = z3.unknown
        if heavy:
            # stage 1: light hypotheses only (dropping hypotheses is sound)
            s = _solver(ctx, ax, hyps, [ng], timeout=2000 if short else TIMEOUT_MS // 2)
            r = s.check()
            if r == z3.sat:
                r = z3.unknown          # a model of a weakened problem proves nothing
            if r == z3.unknown:
                hyps = list(hyps) + list(heavy)
        if r == z3.unknown:
            s = _solver(ctx, ax, hyps, [ng], timeout=2000 if short else None)
            r = s.check()
        if r == z3.unknown and short:
            out["reason"] = s.reason_unknown() + " (short budget: earlier obligations of this function already failed)"
        elif r == z3.unknown:
            out["reason"] = s.reason_unknown()
            hy2 = [z3.simplify(h, expand_select_store=True) for h in hyps]
            s2 = _solver(ctx, ax, hy2, [ng], seed=7)
            r = s2.check()
            backend = "z3-5.1(api,retry)"
            if r == z3.unknown:
                r2, backend2 = other_backends(s)
                if r2 is not None:
                    r, backend = r2, backend2
                else:
                    # last attempt with a generous budget (verdicts must not flip when the machine is busy)
                    s3 = _solver(ctx, ax, hy2, [ng], seed=3, timeout=3 * TIMEOUT_MS)
                    r = s3.check()
                    backend = "z3-5.1(api,retry2)"
                    if r != z3.unknown:
                        s = s3
            else:
                s = s2
        if r == z3.unsat or r == "unsat":
            out["status"] = "discharged"
        elif r == z3.sat or r == "sat":
            out["status"] = "failed"
            try:
                out["model"] = model_text(s.model())
            except Exception:
                out["model"] = "(model from external back end not shown)"
        else:
            out["status"] = "unknown"
        out["backend"] = backend
    else:
        # canary / cover: must NOT be refutable
        s = _solver(ctx, ax, hyps, [goal] if ob.expect == "sat" else [], timeout=3000)
        r = s.check()
        out["backend"] = "z3-5.1(api)"
        out["status"] = "discharged" if r != z3.unsat else "failed"
        if r == z3.unsat:
            out["model"] = "hypotheses are contradictory (vacuous contract)"
    out["seconds"] = round(time.time() - t0, 4)
    if out["status"] != "discharged" and os.environ.get("PYVC_DUMP"):
        import re
        fn = os.path.join(os.environ["PYVC_DUMP"], re.sub(r"[^A-Za-z0-9_.#:-]", "_", ob.id)[:150] + ".smt2")
        with open(fn, "w") as f:
            f.write(s.to_smt2())
    if out["status"] != "discharged" and ob.expect == "unsat":
        try:
            out["smt2_tail"] = s.to_smt2()[-1200:]
        except Exception:
            pass
    return out


def other_backends(s: z3.Solver):
    """second and third opinion on an `unknown`: cvc5 1.0 and z3 4.8 command line tools"""
    try:
        text = s.to_smt2()
    except Exception:
        return None, None
    with tempfile.NamedTemporaryFile("w", suffix=".smt2", delete=False, dir=os.environ.get("PYVC_TMP", None)) as f:
        f.write(text)
        path = f.name
    try:
        tl = TIMEOUT_MS if THOROUGH else min(TIMEOUT_MS, 5000)
        cmds = [(["/usr/bin/cvc5", "--tlimit=%d" % tl, path], "cvc5-1.0")]
        if THOROUGH:
            cmds.append((["/usr/bin/z3", "-T:%d" % (tl // 1000), path], "z3-4.8(cli)"))
        for cmd, name in cmds:
            try:
                p = subprocess.run(cmd, capture_output=True, text=True, timeout=TIMEOUT_MS / 1000 + 5)
            except Exception:
                continue
            first = (p.stdout.strip().splitlines() or [""])[0].strip()
            if first in ("unsat", "sat"):
                return first, name
        return None, None
    finally:
        os.unlink(path)


def model_text(m, limit=60) -> str:
    lines = []
    for d in m.decls():
        n = d.name()
        if "!" in n and not n.startswith(("p_", "ret", "res", "key", "exc")):
            continue
        lines.append(f"{n} = {m[d]}")
        if len(lines) >= limit:
            break
    return "\n".join(lines)
