"""SMT vocabulary of pyvc: the universal value sort, type tags, interning, heap components.

Runs under python3-vt (z3-solver 5.1).  One z3 context per process; every function under
contract is verified in its own worker process (see driver.py).
"""
from __future__ import annotations

import z3
from dataclasses import dataclass, field

I = z3.IntSort()
B = z3.BoolSort()


def _mk_val():
    V = z3.Datatype("Val")
    V.declare("none")
    V.declare("bool", ("b", B))
    V.declare("int", ("i", I))
    V.declare("str", ("s", I))          # interned / opaque string id
    V.declare("ref", ("a", I))          # heap object
    V.declare("con", ("c", I))          # named constant: class, function, enum member, sentinel
    V.declare("pair", ("fst", V), ("snd", V))   # 2-tuples (structural equality: dict keys)
    V.declare("bm", ("recv", V), ("meth", I))   # bound method value  obj.meth
    V.declare("wref", ("target", V))    # weakref.ref(target)
    return V.create()


Val = _mk_val()
VNone = Val.none
AV = z3.ArraySort(I, Val)        # field:   ref -> value
AI = z3.ArraySort(I, I)          # length:  ref -> int
AB = z3.ArraySort(I, B)
KB = z3.ArraySort(Val, B)        # key set
KV = z3.ArraySort(Val, Val)      # key map
IV = z3.ArraySort(I, Val)        # index map
DH = z3.ArraySort(I, KB)         # per-dict key sets
DG = z3.ArraySort(I, KV)         # per-dict key maps
LI = z3.ArraySort(I, IV)         # per-list item maps
VI = z3.ArraySort(Val, I)


def vref(a):
    return Val.ref(a)


def vint(i):
    return Val.int(i if z3.is_expr(i) else z3.IntVal(i))


def vbool(b):
    return Val.bool(b if z3.is_expr(b) else z3.BoolVal(b))


class Interner:
    def __init__(self):
        self.ids: dict[str, int] = {}

    def id(self, name: str) -> int:
        if name not in self.ids:
            self.ids[name] = len(self.ids) + 1
        return self.ids[name]

    def name(self, k: int) -> str | None:
        for n, i in self.ids.items():
            if i == k:
                return n
        return None


CONS = Interner()      # constants (classes, enum members, functions)
STRS = Interner()      # string literals
METHS = Interner()     # method names for bound-method values


def con(name: str):
    return Val.con(z3.IntVal(CONS.id(name)))


def sid(s: str):
    return Val.str(z3.IntVal(STRS.id(s)))


_fresh_n = [0]


def fresh(prefix: str, sort=None):
    _fresh_n[0] += 1
    return z3.Const(f"{prefix}!{_fresh_n[0]}", sort if sort is not None else Val)


# --------------------------------------------------------------------------- type tags

@dataclass(frozen=True)
class Ty:
    kind: str                      # any none bool int str dict list set tuple pair inst opt con exc closure coro lib
    args: tuple = ()
    name: str = ""

    def __repr__(self):
        if self.kind in ("inst", "closure", "lib", "exc", "con"):
            return f"{self.kind}:{self.name}"
        if self.args:
            return f"{self.kind}[{','.join(map(repr, self.args))}]"
        return self.kind


ANY = Ty("any")
TNONE = Ty("none")
TBOOL = Ty("bool")
TINT = Ty("int")
TSTR = Ty("str")
TCON = Ty("con")
TEXC = Ty("exc")


def DICT(k=ANY, v=ANY):
    return Ty("dict", (k, v))


def LIST(e=ANY):
    return Ty("list", (e,))


def SET(e=ANY):
    return Ty("set", (e,))


def TUP(e=ANY):
    return Ty("tuple", (e,))


def PAIR(a=ANY, b=ANY):
    return Ty("pair", (a, b))


def INST(name):
    return Ty("inst", (), name)


def LIB(name):
    return Ty("lib", (), name)


def OPT(t):
    return Ty("opt", (t,))


def CLOSURE(name):
    return Ty("closure", (), name)


@dataclass
class SV:
    """A typed symbolic value: z3 term of sort Val plus a static type tag."""
    t: object
    ty: Ty = ANY
    aux: object = None       # immutable sequences: (items array term, length term) known at creation

    def __repr__(self):
        return f"SV({self.t}:{self.ty})"


NONE_SV = SV(VNone, TNONE)


def strip_opt(ty: Ty) -> Ty:
    return ty.args[0] if ty.kind == "opt" else ty


# --------------------------------------------------------------------------- heap components

# Collection components (shared by all objects of the kind)
COLL_COMPS = {
    "d_has": DH, "d_get": DG, "d_len": AI,      # dict
    "l_len": AI, "l_item": LI,                   # list
    "s_has": DH, "s_len": AI,                    # set
    "t_len": AI, "t_item": LI,                   # tuple (immutable)
    "w_dict": AB,                                # ghost: dicts written by the current activation
    "mycalls": VI,                               # ghost: opaque calls made by the current activation, per callee
}


def comp_sort(name: str):
    if name in COLL_COMPS:
        return COLL_COMPS[name]
    if name == "alloc":
        return I
    if name.startswith("fld:"):
        return AV
    if name.startswith("set:"):          # attribute-is-set flag (hasattr)
        return AB
    raise KeyError(name)


# exception class lattice -----------------------------------------------------------------

EXC_BASES = {
    "BaseException": [],
    "Exception": ["BaseException"],
    "BaseExceptionGroup": ["BaseException"],
    "ExceptionGroup": ["BaseExceptionGroup", "Exception"],
    "KeyboardInterrupt": ["BaseException"],
    "SystemExit": ["BaseException"],
    "GeneratorExit": ["BaseException"],
    "Cancelled": ["BaseException"],           # get_cancelled_exc_class()
    "StopAsyncIteration": ["Exception"],
    "StopIteration": ["Exception"],
    "RuntimeError": ["Exception"],
    "TypeError": ["Exception"],
    "ValueError": ["Exception"],
    "AssertionError": ["Exception"],
    "AttributeError": ["Exception"],
    "ImportError": ["Exception"],
    "LookupError": ["Exception"],
    "KeyError": ["LookupError"],
    "IndexError": ["LookupError"],
    "TimeoutError": ["Exception"],
    "BrokenResourceError": ["Exception"],
    "ClosedResourceError": ["Exception"],
    "WouldBlock": ["Exception"],
    "EndOfStream": ["Exception"],
    # asphalt
    "AsyncResourceError": ["Exception"],
    "ComponentStartError": ["Exception"],
    "NoCurrentContext": ["Exception"],
    "ResourceConflict": ["Exception"],
    "ResourceNotFound": ["LookupError"],
    "UnboundSignal": ["Exception"],
    "ClickException": ["Exception"],
}


def exc_ancestors(name: str) -> set[str]:
    out = {name}
    for b in EXC_BASES.get(name, []):
        out |= exc_ancestors(b)
    return out


subcls = z3.Function("subcls", Val, Val, B)      # subcls(c, d): class c is d or a subclass of d
truthy_u = z3.Function("truthy_u", Val, B)       # truthiness of values of unknown type
callable_u = z3.Function("callable_u", Val, B)
isclass_u = z3.Function("isclass_u", Val, B)
isawaitable_u = z3.Function("isawaitable_u", Val, B)
iscoroutine_u = z3.Function("iscoroutine_u", Val, B)
has_origin_u = z3.Function("has_origin_u", Val, B)      # get_origin(x) is not None
is_sequence_u = z3.Function("is_sequence_u", Val, B)    # isinstance(x, Sequence)
is_mapping_u = z3.Function("is_mapping_u", Val, B)      # isinstance(x, (Mutable)Mapping)
is_dict_u = z3.Function("is_dict_u", Val, B)            # isinstance(x, dict)
is_str_u = z3.Function("is_str_u", Val, B)
is_int_u = z3.Function("is_int_u", Val, B)
name_ok_u = z3.Function("name_ok_u", Val, B)            # resource_name_re.fullmatch(name)
type_of = z3.Function("type_of", Val, Val)              # type(x)


def closed_class_axiom(name: str, ancestors: set[str]):
    """subcls(con(name), d) holds exactly for d in ancestors (one quantified fact per known class)"""
    d = z3.Const("d!lat", Val)
    return z3.ForAll([d], subcls(con(name), d) == z3.Or(*[d == con(x) for x in sorted(ancestors)]),
                     patterns=[subcls(con(name), d)])


def lattice_axioms():
    """Exception-class lattice: closed facts for known classes + upward closure for unknown classes."""
    ax = []
    names = list(EXC_BASES)
    for a in names:
        ax.append(closed_class_axiom(a, exc_ancestors(a)))
    c = z3.Const("c!lat", Val)
    for a in names:
        for b in EXC_BASES[a]:
            ax.append(z3.ForAll([c], z3.Implies(subcls(c, con(a)), subcls(c, con(b))),
                                patterns=[subcls(c, con(a))]))
    return ax


split_len = z3.Function("split_len", Val, Val, Val, I)
str_replace = z3.Function("str_replace", Val, Val, Val, Val)
split_item = z3.Function("split_item", Val, Val, Val, I, Val)


def builtin_axioms():
    v = z3.Const("v!ax", Val)
    _v2, _v3, _i1 = z3.Const("v2!ax", Val), z3.Const("v3!ax", Val), z3.Const("i1!ax", I)
    bb = z3.Const("b!ax", B)
    ax = [
        z3.Not(truthy_u(VNone)),
        z3.Not(callable_u(VNone)),
        z3.Not(isawaitable_u(VNone)),
        z3.ForAll([v], z3.Implies(iscoroutine_u(v), isawaitable_u(v)), patterns=[iscoroutine_u(v)]),
        z3.ForAll([bb], truthy_u(Val.bool(bb)) == bb, patterns=[truthy_u(Val.bool(bb))]),
        z3.Not(is_dict_u(VNone)), z3.Not(is_mapping_u(VNone)), z3.Not(is_str_u(VNone)),
        z3.ForAll([v], z3.Implies(is_dict_u(v), z3.And(is_mapping_u(v), Val.is_ref(v))), patterns=[is_dict_u(v)]),
        z3.ForAll([v], z3.Implies(is_mapping_u(v), Val.is_ref(v)), patterns=[is_mapping_u(v)]),
        z3.ForAll([v], z3.Not(Val.is_ref(type_of(v))), patterns=[type_of(v)]),        # classes are constants, not heap objects
        z3.ForAll([v, _v2, _v3, _i1], z3.And(Val.is_str(split_item(v, _v2, _v3, _i1)), is_str_u(split_item(v, _v2, _v3, _i1))),
                  patterns=[split_item(v, _v2, _v3, _i1)]),
        z3.ForAll([v, _v2, _v3], z3.And(Val.is_str(str_replace(v, _v2, _v3)), is_str_u(str_replace(v, _v2, _v3))),
                  patterns=[str_replace(v, _v2, _v3)]),
    ]
    return ax


# ---- opaque string functions (strings are atoms; these name the results of split / f-strings deterministically)
_FSTR = {}


def fstr_fn(template: str, n: int):
    """the string an f-string with this template produces from its n interpolated values (uninterpreted, deterministic)"""
    key = (template, n)
    if key not in _FSTR:
        _FSTR[key] = z3.Function(f"fstr<{template}>", *([Val] * n), I) if n else None
    return _FSTR[key]


def fstr_template(node) -> str:
    import ast as _ast
    out = []
    for p in node.values:
        if isinstance(p, _ast.Constant):
            out.append(str(p.value))
        else:
            conv = {-1: "", 115: "!s", 114: "!r", 97: "!a"}.get(p.conversion, "")
            spec = ":" + fstr_template(p.format_spec) if p.format_spec is not None else ""
            out.append("{" + conv + spec + "}")
    return "".join(out)
