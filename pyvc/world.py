"""The program under verification: parsed from /repo/src on every run (never imported)."""
from __future__ import annotations

import ast
import os
from dataclasses import dataclass, field

REPO_SRC = os.environ.get("VERIF_REPO_SRC", "/repo/src")
PKG = "asphalt/core"
MODULES = ["_utils", "_exceptions", "_event", "_concurrent", "_context", "_component", "_runner", "_cli"]


@dataclass
class FuncInfo:
    qual: str                 # e.g. "_context.Context.add_resource", "_context.inject.resolve_resources"
    module: str
    node: ast.AST             # FunctionDef | AsyncFunctionDef | Lambda
    cls: str | None           # enclosing class name
    outer: str | None         # enclosing function qual (closures)
    file: str = ""

    @property
    def is_async(self):
        return isinstance(self.node, ast.AsyncFunctionDef)

    @property
    def decorators(self):
        out = []
        for d in getattr(self.node, "decorator_list", []):
            if isinstance(d, ast.Name):
                out.append(d.id)
            elif isinstance(d, ast.Attribute):
                out.append(d.attr)
            elif isinstance(d, ast.Call):
                f = d.func
                out.append(f.id if isinstance(f, ast.Name) else getattr(f, "attr", "?"))
        return out


@dataclass
class ClassInfo:
    name: str
    module: str
    node: ast.ClassDef
    bases: list[str]
    is_dataclass: bool = False
    frozen: bool = False
    fields: list[tuple[str, ast.expr | None, dict]] = field(default_factory=list)   # dataclass fields
    class_attrs: dict[str, ast.expr] = field(default_factory=dict)


class World:
    def __init__(self, src: str | None = None):
        self.src = src or REPO_SRC
        self.funcs: dict[str, FuncInfo] = {}
        self.classes: dict[str, ClassInfo] = {}
        self.imports: dict[str, dict[str, str]] = {}      # module -> local name -> "module.name" / "ext:..."
        self.module_asts: dict[str, ast.Module] = {}
        self.module_globals: dict[str, dict[str, ast.expr]] = {}
        self.sources: dict[str, str] = {}
        for m in MODULES:
            self._load(m)

    def path(self, m):
        return os.path.join(self.src, PKG, m + ".py")

    def _load(self, m: str):
        p = self.path(m)
        text = open(p).read()
        self.sources[m] = text
        tree = ast.parse(text, p)
        self.module_asts[m] = tree
        imp: dict[str, str] = {}
        glob: dict[str, ast.expr] = {}
        self.imports[m] = imp
        self.module_globals[m] = glob
        for node in ast.walk(tree):
            if isinstance(node, ast.ImportFrom):
                if node.level == 1 and node.module:
                    for a in node.names:
                        imp[a.asname or a.name] = f"{node.module}.{a.name}"
                else:
                    for a in node.names:
                        imp.setdefault(a.asname or a.name, f"ext:{node.module}.{a.name}")
            elif isinstance(node, ast.Import):
                for a in node.names:
                    imp.setdefault((a.asname or a.name).split(".")[0], f"ext:{a.name}")
        for node in tree.body:
            if isinstance(node, (ast.FunctionDef, ast.AsyncFunctionDef)):
                self._add_func(m, node, None, None)
            elif isinstance(node, ast.ClassDef):
                self._add_class(m, node)
            elif isinstance(node, ast.Assign) and len(node.targets) == 1 and isinstance(node.targets[0], ast.Name):
                glob[node.targets[0].id] = node.value
            elif isinstance(node, ast.AnnAssign) and isinstance(node.target, ast.Name) and node.value is not None:
                glob[node.target.id] = node.value

    def _is_overload(self, node):
        for d in node.decorator_list:
            if isinstance(d, ast.Name) and d.id == "overload":
                return True
        return False

    def _add_func(self, m, node, cls, outer):
        if self._is_overload(node):
            return
        if outer:
            qual = f"{outer}.{node.name}"
        elif cls:
            qual = f"{m}.{cls}.{node.name}"
        else:
            qual = f"{m}.{node.name}"
        fi = FuncInfo(qual, m, node, cls, outer, self.path(m))
        self.funcs[qual] = fi
        # nested defs (closures), not crossing into nested classes
        for sub in self._nested_defs(node):
            self._add_func(m, sub, cls, qual)
        # lambdas, numbered in ast.walk order of this function (the name the engine gives their closure values)
        k = 0
        for n in ast.walk(node):
            if isinstance(n, ast.Lambda):
                self.funcs[f"{qual}.<lambda@{k}>"] = FuncInfo(f"{qual}.<lambda@{k}>", m, n, cls, qual, self.path(m))
                k += 1

    def _nested_defs(self, node):
        out = []
        stack = list(node.body)
        while stack:
            n = stack.pop(0)
            if isinstance(n, (ast.FunctionDef, ast.AsyncFunctionDef)):
                out.append(n)
                continue
            if isinstance(n, ast.ClassDef):
                continue
            for ch in ast.iter_child_nodes(n):
                if isinstance(ch, (ast.stmt, ast.ExceptHandler)) or isinstance(ch, ast.match_case if hasattr(ast, "match_case") else ()):
                    stack.append(ch)
        return out

    def _add_class(self, m, node: ast.ClassDef):
        bases = []
        for b in node.bases:
            if isinstance(b, ast.Name):
                bases.append(b.id)
            elif isinstance(b, ast.Attribute):
                bases.append(b.attr)
            elif isinstance(b, ast.Subscript) and isinstance(b.value, ast.Name):
                bases.append(b.value.id)
        ci = ClassInfo(node.name, m, node, bases)
        for d in node.decorator_list:
            name = d.id if isinstance(d, ast.Name) else (d.func.id if isinstance(d, ast.Call) and isinstance(d.func, ast.Name) else None)
            if name == "dataclass":
                ci.is_dataclass = True
                if isinstance(d, ast.Call):
                    for kw in d.keywords:
                        if kw.arg == "frozen" and isinstance(kw.value, ast.Constant):
                            ci.frozen = bool(kw.value.value)
        for st in node.body:
            if isinstance(st, (ast.FunctionDef, ast.AsyncFunctionDef)):
                self._add_func(m, st, node.name, None)
            elif isinstance(st, ast.AnnAssign) and isinstance(st.target, ast.Name):
                opts = {}
                default = st.value
                if isinstance(default, ast.Call) and isinstance(default.func, ast.Name) and default.func.id == "field":
                    for kw in default.keywords:
                        opts[kw.arg] = kw.value
                    default = opts.get("default")
                ann = ast.unparse(st.annotation)
                if ci.is_dataclass and not ann.startswith("ClassVar"):
                    ci.fields.append((st.target.id, default, opts))
                if st.value is not None:
                    ci.class_attrs[st.target.id] = st.value
            elif isinstance(st, ast.Assign) and len(st.targets) == 1 and isinstance(st.targets[0], ast.Name):
                ci.class_attrs[st.targets[0].id] = st.value
        self.classes[node.name] = ci

    # ------------------------------------------------------------------ queries
    def mro(self, cls: str) -> list[str]:
        out = []
        todo = [cls]
        while todo:
            c = todo.pop(0)
            if c in out or c not in self.classes:
                continue
            out.append(c)
            todo.extend(self.classes[c].bases)
        return out

    def find_method(self, cls: str, name: str) -> FuncInfo | None:
        for c in self.mro(cls):
            ci = self.classes[c]
            fi = self.funcs.get(f"{ci.module}.{c}.{name}")
            if fi:
                return fi
        return None

    def class_attr(self, cls: str, name: str):
        for c in self.mro(cls):
            ci = self.classes[c]
            if name in ci.class_attrs:
                return ci, ci.class_attrs[name]
        return None, None

    def dataclass_fields(self, cls: str):
        """Fields in definition order through the MRO (base first)."""
        out = []
        for c in reversed(self.mro(cls)):
            ci = self.classes[c]
            if ci.is_dataclass:
                for f in ci.fields:
                    out = [g for g in out if g[0] != f[0]] + [f]
        return out

    def defines_bool_or_len(self, cls: str) -> bool:
        return any(self.find_method(cls, n) for n in ("__bool__", "__len__"))

    def is_exception_class(self, cls: str) -> bool:
        from .smt import EXC_BASES
        for c in self.mro(cls):
            for b in self.classes[c].bases:
                if b in EXC_BASES and b not in self.classes:
                    return True
        return cls in EXC_BASES

    def resolve_global(self, module: str, name: str):
        """-> ('func', FuncInfo) | ('class', ClassInfo) | ('ext', dotted) | ('global', ast expr) | None"""
        q = f"{module}.{name}"
        if q in self.funcs and self.funcs[q].cls is None and self.funcs[q].outer is None:
            return ("func", self.funcs[q])
        if name in self.classes and self.classes[name].module == module:
            return ("class", self.classes[name])
        if name in self.module_globals.get(module, {}):
            return ("global", (module, name, self.module_globals[module][name]))
        tgt = self.imports.get(module, {}).get(name)
        if tgt is None:
            return None
        if tgt.startswith("ext:"):
            return ("ext", tgt[4:])
        m2, n2 = tgt.split(".", 1)
        return self.resolve_global(m2, n2)

    def all_attr_names(self) -> set[str]:
        names = set()
        for tree in self.module_asts.values():
            for n in ast.walk(tree):
                if isinstance(n, ast.Attribute):
                    names.add(n.attr)
        for ci in self.classes.values():
            for f in ci.fields:
                names.add(f[0])
        return names

    def attr_stores(self, attr: str):
        """All syntactic writes `<expr>.attr = ...` / AugAssign / del in the package: (module, func qual, lineno)."""
        out = []
        for q, fi in self.funcs.items():
            for n in self._own_nodes(fi.node):
                if isinstance(n, ast.Attribute) and n.attr == attr and isinstance(n.ctx, (ast.Store, ast.Del)):
                    out.append((fi.module, q, n.lineno))
        return out

    def attr_method_calls(self, attr: str):
        """All syntactic `<expr>.attr.<meth>(...)` in the package: (func qual, meth, lineno)."""
        out = []
        for q, fi in self.funcs.items():
            for n in self._own_nodes(fi.node):
                if (isinstance(n, ast.Call) and isinstance(n.func, ast.Attribute)
                        and isinstance(n.func.value, ast.Attribute) and n.func.value.attr == attr):
                    out.append((q, n.func.attr, n.lineno))
                if (isinstance(n, ast.Subscript) and isinstance(n.value, ast.Attribute) and n.value.attr == attr
                        and isinstance(n.ctx, (ast.Store, ast.Del))):
                    out.append((q, "__setitem__", n.lineno))
        return out

    def _own_nodes(self, fnode):
        """Nodes of a function excluding nested function bodies."""
        stack = list(ast.iter_child_nodes(fnode))
        while stack:
            n = stack.pop()
            yield n
            if isinstance(n, (ast.FunctionDef, ast.AsyncFunctionDef, ast.ClassDef)):
                continue
            stack.extend(ast.iter_child_nodes(n))
