"""pyvc engine: symbolic execution of real function bodies into verification conditions.

Part 1: engine object, state set-up, obligations, truthiness, expression evaluation.
Statement execution is in stmts.py, calls/containers in calls.py (mixins).
"""
from __future__ import annotations

import ast
import z3
from .smt import *
from .state import *
from .world import World, FuncInfo

DROPPED_CALL_NAMES = {"cast"}
LOGGER_NAMES = {"logger"}


class EngineBase:
    def __init__(self, world: World, registry, fi: FuncInfo, spec):
        self.world = world
        self.reg = registry                  # Registry (specs, schema, rely, invariants)
        self.fi = fi
        self.spec = spec
        self.module = fi.module
        self.obls: list[Obl] = []
        self.axioms = lattice_axioms() + builtin_axioms() + registry.class_axioms(world) + registry.extra_axioms()
        self.comps = registry.components(world)     # name -> sort
        self.loop_ord = 0
        self.call_ord: dict[str, int] = {}
        self.dropped: dict[str, int] = {}
        self.nodes_translated = 0
        self.notes: list[str] = []
        self._feas = z3.Solver()
        self._feas.set("timeout", 1500)
        self.cellvars: set[str] = set()
        self.freevars: set[str] = set()
        self.inline_depth = 0

    # ------------------------------------------------------------------ obligations
    def oblige(self, st: State, kind: str, name: str, goal, anchor: str = "", expect="unsat", extra_hyps=()):
        oid = f"{self.fi.qual}#{kind}:{name}" + (f"@{anchor}" if anchor else "")
        wanted = set(getattr(self.spec, "uses_invariants", ()) or ())
        lazy = [f for (n, f) in st.lazy if n == name or name.endswith(n) or n in wanted]
        self.obls.append(Obl(oid, kind, list(st.pc) + lazy + list(extra_hyps), goal, anchor, expect,
                             st.label(), tuple(sorted(st.uses)), tuple(st.heavy)))

    def drop(self, rule):
        self.dropped[rule] = self.dropped.get(rule, 0) + 1

    def feasible(self, st: State) -> bool:
        """Prune paths whose condition is unsat (sound: unknown keeps the path).  Only the quantifier-free
        part of the path condition is used, so the check is fast and can only keep more paths."""
        self._feas.push()
        try:
            for f in st.pc:
                if not self._has_quant(f):
                    self._feas.add(f)
            return self._feas.check() != z3.unsat
        finally:
            self._feas.pop()

    def feasible_full(self, st: State, timeout_ms=3000) -> bool:
        """like feasible(), with the axioms and the quantified part of the path condition (unknown keeps the path)"""
        s = z3.Solver()
        s.set("timeout", timeout_ms)
        for a in self.axioms:
            s.add(a)
        for f in st.pc:
            s.add(f)
        return s.check() != z3.unsat

    def _has_quant(self, f) -> bool:
        cache = self.__dict__.setdefault("_qcache", {})
        i = f.get_id()
        if i in cache:
            return cache[i]
        todo = [f]
        seen = set()
        res = False
        while todo:
            t = todo.pop()
            if z3.is_quantifier(t):
                res = True
                break
            j = t.get_id()
            if j in seen:
                continue
            seen.add(j)
            todo.extend(t.children())
        cache[i] = res
        return res

    # ------------------------------------------------------------------ initial heap / havoc
    def fresh_heap(self, prefix="h"):
        return {name: fresh(f"{prefix}.{name}", sort) for name, sort in self.comps.items()}

    def wf_value(self, st: State, t):
        """well-formedness of a value read from the pre-existing world: refs are allocated"""
        st.assume(z3.Implies(Val.is_ref(t), z3.And(Val.a(t) < st.alloc, Val.a(t) >= 0)))

    def typed(self, st: State, t, ty: Ty) -> SV:
        """assume the dynamic facts the static tag stands for"""
        k = strip_opt(ty)
        opt = ty.kind == "opt"
        facts = []
        if k.kind in ("dict", "list", "set", "tuple", "inst", "lib", "exc"):
            facts.append(Val.is_ref(t))
            if k.kind == "dict":
                facts.append(is_dict_u(t))
                facts.append(is_mapping_u(t))
            if k.kind == "inst":
                facts.append(subcls(z3.Select(st.heap["fld:__class__"], Val.a(t)), con(k.name)))
        elif k.kind == "none":
            facts.append(t == VNone)
        elif k.kind == "bool":
            facts.append(Val.is_bool(t))
        elif k.kind == "int":
            facts.append(Val.is_int(t))
        elif k.kind == "str":
            facts.append(Val.is_str(t))
            facts.append(is_str_u(t))
        elif k.kind == "pair":
            facts.append(Val.is_pair(t))
        if facts:
            f = z3.And(*facts)
            st.assume(z3.Or(t == VNone, f) if opt else f)
        self.wf_value(st, t)
        return SV(t, ty)

    # ------------------------------------------------------------------ truthiness
    def truth(self, st: State, v: SV):
        """-> z3 Bool (may add defining assumptions to st)"""
        ty = v.ty
        t = v.t
        if ty.kind == "opt":
            inner = self.truth(st, SV(t, ty.args[0]))
            return z3.And(t != VNone, inner)
        if ty.kind == "none":
            return z3.BoolVal(False)
        if ty.kind == "bool":
            return Val.b(t)
        if ty.kind == "int":
            return Val.i(t) != 0
        if ty.kind == "str":
            return t != sid("")
        if ty.kind in ("con", "closure", "pair"):
            return z3.BoolVal(True)
        if ty.kind in ("inst", "lib", "exc"):
            if ty.kind == "inst" and self.world.defines_bool_or_len(ty.name):
                return truthy_u(t)
            return z3.BoolVal(True)
        if ty.kind == "dict":
            a = Val.a(t)
            b = fresh("nonempty", B)
            w = fresh("wit")
            st.assume(b == (st.d_len(a) > 0), st.d_len(a) >= 0,
                      z3.Implies(b, st.d_has(a, w)),
                      z3.Implies(z3.Not(b), z3.Select(st.heap["d_has"], a) == z3.K(Val, z3.BoolVal(False))))
            return b
        if ty.kind == "set":
            a = Val.a(t)
            b = fresh("nonempty", B)
            w = fresh("wit")
            st.assume(b == (st.s_len(a) > 0), st.s_len(a) >= 0,
                      z3.Implies(b, st.s_has(a, w)),
                      z3.Implies(z3.Not(b), z3.Select(st.heap["s_has"], a) == z3.K(Val, z3.BoolVal(False))))
            return b
        if ty.kind == "list":
            st.assume(st.l_len(Val.a(t)) >= 0)
            return st.l_len(Val.a(t)) > 0
        if ty.kind == "tuple":
            st.assume(st.t_len(Val.a(t)) >= 0)
            return st.t_len(Val.a(t)) > 0
        # any: None/bool decided, dict-like by predicate, else uninterpreted
        return z3.If(t == VNone, z3.BoolVal(False),
                     z3.If(Val.is_bool(t), Val.b(t),
                           z3.If(Val.is_str(t), t != sid(""), truthy_u(t))))

    # ------------------------------------------------------------------ expression evaluation
    def bind(self, results: list[Res], fn) -> list[Res]:
        out = []
        for r in results:
            if r.exc is not None:
                out.append(r)
            else:
                out.extend(fn(r.st, r.val))
        return out

    def eval_many(self, exprs, st: State) -> list[tuple[State, list[SV], SV | None]]:
        """evaluate left to right; -> list of (state, values, exc)"""
        acc = [(st, [], None)]
        for e in exprs:
            nxt = []
            for (s, vals, exc) in acc:
                if exc is not None:
                    nxt.append((s, vals, exc))
                    continue
                for r in self.eval(e, s):
                    if r.exc is not None:
                        nxt.append((r.st, vals, r.exc))
                    else:
                        nxt.append((r.st, vals + [r.val], None))
            acc = nxt
        return acc

    def eval(self, e: ast.expr, st: State) -> list[Res]:
        self.nodes_translated += 1
        m = getattr(self, "ev_" + type(e).__name__, None)
        if m is None:
            raise Untranslatable(f"expression {type(e).__name__} at line {getattr(e, 'lineno', '?')}")
        return m(e, st)

    def ev_Constant(self, e, st):
        v = e.value
        if v is None:
            return [Res(st, NONE_SV)]
        if v is True or v is False:
            return [Res(st, SV(vbool(v), TBOOL))]
        if isinstance(v, int):
            return [Res(st, SV(vint(v), TINT))]
        if isinstance(v, str):
            return [Res(st, SV(sid(v), TSTR))]
        if v is Ellipsis:
            return [Res(st, SV(con("Ellipsis"), TCON))]
        if isinstance(v, (float, bytes)):
            return [Res(st, SV(con(f"const:{v!r}"), TCON))]
        raise Untranslatable(f"constant {v!r}")

    def ev_JoinedStr(self, e, st):
        # f-string: evaluate the parts (they may call contracted helpers), result is an opaque string
        parts = [p.value for p in e.values if isinstance(p, ast.FormattedValue)]
        out = []
        for (s, vals, exc) in self.eval_many(parts, st):
            if exc is not None:
                out.append(Res(s, None, exc))
            else:
                f = fstr_fn(fstr_template(e), len(vals))
                sid_ = f(*[v.t for v in vals]) if f is not None else fresh("fstr", I)
                out.append(Res(s, self.typed(s, Val.str(sid_), TSTR)))
        return out

    def ev_Name(self, e, st):
        n = e.id
        if n in st.env:
            return [Res(st, st.env[n])]
        if n in self.freevars:
            a = st.ghost["outer_env"]
            for _ in range(getattr(self, "free_depth", {}).get(n, 1) - 1):
                a = Val.a(st.fld("cell:__parent__", a))
            t = st.fld("cell:" + n, a)
            ty = self.spec.cell_types.get(n, ANY) if self.spec else ANY
            return [Res(st, self.typed(st, t, ty) if ty != ANY else SV(t, ANY))]
        return [Res(st, self.global_value(n, st))]

    def global_value(self, n: str, st: State) -> SV:
        r = self.world.resolve_global(self.module, n)
        if n in EXC_BASES and (r is None or r[0] == "ext"):
            return SV(con(n), Ty("class", (), n))
        if r is None:
            if n in ("True", "False", "None"):
                raise Untranslatable(n)
            if n in EXC_BASES:
                return SV(con(n), Ty("class", (), n))
            # builtin names used as values
            return SV(con("builtin:" + n), TCON)
        kind, info = r
        if kind == "func":
            return SV(con("func:" + info.qual), Ty("func", (), info.qual))
        if kind == "class":
            return SV(con(info.name), Ty("class", (), info.name))
        if kind == "ext":
            return SV(con("ext:" + info), Ty("ext", (), info))
        if kind == "global":
            m, name, node = info
            gty = self.reg.global_types.get(f"{m}.{name}")
            if gty is not None:
                # module-level object living in the heap at a fixed address
                t = self.reg.global_ref(f"{m}.{name}")
                return SV(t, gty)
            return SV(con(f"global:{m}.{name}"), Ty("global", (), f"{m}.{name}"))
        raise Untranslatable(n)

    def ev_Tuple(self, e, st):
        if any(isinstance(x, ast.Starred) for x in e.elts):
            raise Untranslatable("starred tuple display")
        out = []
        for (s, vals, exc) in self.eval_many(e.elts, st):
            if exc is not None:
                out.append(Res(s, None, exc))
                continue
            out.append(Res(s, self.make_tuple(s, vals)))
        return out

    def make_tuple(self, s: State, vals: list[SV]) -> SV:
        if len(vals) == 2:
            return SV(Val.pair(vals[0].t, vals[1].t), PAIR(vals[0].ty, vals[1].ty))
        items = z3.K(I, VNone)
        for i, v in enumerate(vals):
            items = z3.Store(items, i, v.t)
        a = s.new_tuple(items, z3.IntVal(len(vals)))
        from .comps import tmem
        for v in vals:
            s.assume(tmem(items, z3.IntVal(len(vals)), v.t))
        ety = vals[0].ty if vals and all(v.ty == vals[0].ty for v in vals) else ANY
        return SV(vref(a), TUP(ety), (items, z3.IntVal(len(vals))))

    def ev_List(self, e, st):
        out = []
        for (s, vals, exc) in self.eval_many(e.elts, st):
            if exc is not None:
                out.append(Res(s, None, exc))
                continue
            items = z3.K(I, VNone)
            for i, v in enumerate(vals):
                items = z3.Store(items, i, v.t)
            a = s.new_list(items, z3.IntVal(len(vals)))
            ety = vals[0].ty if vals and all(v.ty == vals[0].ty for v in vals) else ANY
            out.append(Res(s, SV(vref(a), LIST(ety))))
        return out

    def ev_Dict(self, e, st):
        # {k: v, **d, ...}: later entries win
        out = []
        exprs = []
        for k, v in zip(e.keys, e.values):
            if k is not None:
                exprs.append(k)
            exprs.append(v)
        for (s, vals, exc) in self.eval_many(exprs, st):
            if exc is not None:
                out.append(Res(s, None, exc))
                continue
            a = s.new_dict()
            it = iter(vals)
            for k in e.keys:
                if k is not None:
                    kv = next(it)
                    vv = next(it)
                    s.d_store(a, kv.t, vv.t)
                else:
                    d = next(it)
                    self.dict_update(s, a, d)
            out.append(Res(s, SV(vref(a), DICT())))
        return out

    def dict_update(self, s: State, a, d: SV):
        """a.update(d) for a dict-like d (a mapping value of unknown class is read through the dict model:
        assumption 'mappings behave like dicts')."""
        b = Val.a(d.t)
        has = fresh("upd_has", KB)
        get = fresh("upd_get", KV)
        k = z3.Const("k!upd", Val)
        ha, ga = z3.Select(s.heap["d_has"], a), z3.Select(s.heap["d_get"], a)
        hb, gb = z3.Select(s.heap["d_has"], b), z3.Select(s.heap["d_get"], b)
        s.assume(z3.ForAll([k], z3.Select(has, k) == z3.Or(z3.Select(ha, k), z3.Select(hb, k)),
                           patterns=[z3.Select(has, k)]),
                 z3.ForAll([k], z3.Select(get, k) == z3.If(z3.Select(hb, k), z3.Select(gb, k), z3.Select(ga, k)),
                           patterns=[z3.Select(get, k)]))
        ln = fresh("upd_len", I)
        s.assume(ln >= s.d_len(a), ln >= s.d_len(b), ln <= s.d_len(a) + s.d_len(b))
        s.heap["d_has"] = z3.Store(s.heap["d_has"], a, has)
        s.heap["d_get"] = z3.Store(s.heap["d_get"], a, get)
        s.heap["d_len"] = z3.Store(s.heap["d_len"], a, ln)
        s.mark_written(a)

    def ev_Set(self, e, st):
        raise Untranslatable("set display")

    def ev_UnaryOp(self, e, st):
        if isinstance(e.op, ast.Not):
            def f(s, v):
                return [Res(s, SV(vbool(z3.Not(self.truth(s, v))), TBOOL))]
            return self.bind(self.eval(e.operand, st), f)
        if isinstance(e.op, ast.USub) and isinstance(e.operand, ast.Constant):
            return [Res(st, SV(vint(-e.operand.value), TINT))]
        raise Untranslatable("unary op")

    def ev_BinOp(self, e, st):
        """integer + - * on ints (mathematical integers); on strings `+` and `*` give opaque strings (uninterpreted functions of the operands)"""
        out = []
        for (s, vals, exc) in self.eval_many([e.left, e.right], st):
            if exc is not None:
                out.append(Res(s, None, exc))
                continue
            a, b = vals
            ka, kb = strip_opt(a.ty).kind, strip_opt(b.ty).kind
            op = type(e.op)
            if ka in ("int", "bool") and kb in ("int", "bool") and op in (ast.Add, ast.Sub, ast.Mult):
                iv = lambda v: Val.i(v.t) if v.ty.kind == "int" else z3.If(Val.b(v.t), 1, 0)
                x, y = iv(a), iv(b)
                out.append(Res(s, SV(vint({ast.Add: x + y, ast.Sub: x - y, ast.Mult: x * y}[op]), TINT)))
            elif "str" in (ka, kb) and op in (ast.Add, ast.Mult, ast.Mod) and ka in ("str", "int", "any", "tuple", "pair") and kb in ("str", "int", "any", "tuple", "pair"):
                f = z3.Function("str_binop_" + op.__name__, Val, Val, I)
                out.append(Res(s, self.typed(s, Val.str(f(a.t, b.t)), TSTR)))
            else:
                raise Untranslatable(f"binary operator {op.__name__} on {a.ty} and {b.ty}")
        return out

    def ev_BoolOp(self, e, st):
        is_and = isinstance(e.op, ast.And)

        def go(i, s) -> list[Res]:
            rs = self.eval(e.values[i], s)
            if i == len(e.values) - 1:
                return rs
            out = []
            for r in rs:
                if r.exc is not None:
                    out.append(r)
                    continue
                tr = self.truth(r.st, r.val)
                stop = z3.Not(tr) if is_and else tr
                # pure right-hand side (no fork, no raise, no heap effect, no obligation): no path split needed
                nob = len(self.obls)
                saved_ord = dict(self.call_ord)
                probe = r.st.copy()
                rest = go(i + 1, probe)
                if (len(rest) == 1 and rest[0].exc is None and len(self.obls) == nob
                        and all(rest[0].st.heap[c] is r.st.heap[c] or rest[0].st.heap[c].eq(r.st.heap[c]) for c in r.st.heap)):
                    v2 = rest[0].val
                    if v2.ty == TBOOL and r.val.ty == TBOOL:
                        val = SV(vbool(z3.And(Val.b(r.val.t), Val.b(v2.t)) if is_and else z3.Or(Val.b(r.val.t), Val.b(v2.t))), TBOOL)
                    else:
                        val = SV(z3.If(stop, r.val.t, v2.t), r.val.ty if r.val.ty == v2.ty else ANY)
                    out.append(Res(rest[0].st, val))
                    continue
                del self.obls[nob:]
                self.call_ord = saved_ord
                s_stop = r.st.fork(stop)
                s_go = r.st.fork(z3.Not(stop))
                if self.feasible(s_stop):
                    out.append(Res(s_stop, r.val))
                if self.feasible(s_go):
                    out.extend(go(i + 1, s_go))
            return out
        return go(0, st)

    def ev_IfExp(self, e, st):
        out = []
        for r in self.eval(e.test, st):
            if r.exc is not None:
                out.append(r)
                continue
            tr = self.truth(r.st, r.val)
            s1, s2 = r.st.fork(tr), r.st.fork(z3.Not(tr))
            if self.feasible(s1):
                out.extend(self.eval(e.body, s1))
            if self.feasible(s2):
                out.extend(self.eval(e.orelse, s2))
        return out

    def ev_NamedExpr(self, e, st):
        def f(s, v):
            self.assign_name(s, e.target.id, v)
            return [Res(s, v)]
        return self.bind(self.eval(e.value, st), f)

    def assign_name(self, s: State, name: str, v: SV):
        if name in getattr(self, "my_nonlocals", ()) and "outer_env" in s.ghost:
            # `nonlocal name`: the binding lives in the enclosing activation's cell (reads go through ev_Name's free-variable path)
            a = s.ghost["outer_env"]
            for _ in range(getattr(self, "free_depth", {}).get(name, 1) - 1):
                a = Val.a(s.fld("cell:__parent__", a))
            s.set_fld("cell:" + name, a, v.t)
            s.env.pop(name, None)
            return
        s.env[name] = v
        if name in self.cellvars:
            s.set_fld("cell:" + name, s.envref, v.t)

    def ev_Compare(self, e, st):
        if len(e.ops) == 1:
            return self._compare1(e.left, e.ops[0], e.comparators[0], st)
        # chained: a op b op c  ==  (a op b) and (b op c); operands here are simple (no side effects)
        out = []
        for (s, vals, exc) in self.eval_many([e.left] + list(e.comparators), st):
            if exc is not None:
                out.append(Res(s, None, exc))
                continue
            conj = []
            for i, op in enumerate(e.ops):
                conj.append(self.cmp_vals(s, vals[i], op, vals[i + 1]))
            out.append(Res(s, SV(vbool(z3.And(*conj)), TBOOL)))
        return out

    def _compare1(self, left, op, right, st):
        out = []
        for (s, vals, exc) in self.eval_many([left, right], st):
            if exc is not None:
                out.append(Res(s, None, exc))
                continue
            out.append(Res(s, SV(vbool(self.cmp_vals(s, vals[0], op, vals[1])), TBOOL)))
        return out

    def cmp_vals(self, s: State, a: SV, op, b: SV):
        if isinstance(op, (ast.Is, ast.Eq)):
            return a.t == b.t
        if isinstance(op, (ast.IsNot, ast.NotEq)):
            return a.t != b.t
        if isinstance(op, (ast.In, ast.NotIn)):
            r = self.contains(s, b, a)
            return r if isinstance(op, ast.In) else z3.Not(r)
        if isinstance(op, (ast.Lt, ast.LtE, ast.Gt, ast.GtE)):
            # bool is a subclass of int (True == 1): ordering comparisons see its integer value
            iv = lambda v: Val.i(v.t) if v.ty.kind == "int" else z3.If(Val.is_bool(v.t), z3.If(Val.b(v.t), 1, 0), Val.i(v.t))
            x, y = iv(a), iv(b)
            return {ast.Lt: x < y, ast.LtE: x <= y, ast.Gt: x > y, ast.GtE: x >= y}[type(op)]
        raise Untranslatable("compare op")

    def contains(self, s: State, coll: SV, x: SV):
        k = strip_opt(coll.ty).kind
        if k == "dict":
            return s.d_has(Val.a(coll.t), x.t)
        if k == "set":
            return s.s_has(Val.a(coll.t), x.t)
        if k == "pair":
            return z3.Or(x.t == Val.fst(coll.t), x.t == Val.snd(coll.t))
        if k == "tuple":
            from .comps import tmem, tmem_intro
            a = Val.a(coll.t)
            items, ln = z3.Select(s.heap["t_item"], a), s.t_len(a)
            s.assume(tmem_intro(items, ln))
            return tmem(items, ln, x.t)
        if k in ("list", "tuple"):
            a = Val.a(coll.t)
            ln = s.l_len(a) if k == "list" else s.t_len(a)
            item = (lambda i: s.l_item(a, i)) if k == "list" else (lambda i: s.t_item(a, i))
            b = fresh("isin", B)
            j = fresh("j", I)
            i = z3.Const("i!in", I)
            s.assume(z3.Implies(b, z3.And(0 <= j, j < ln, item(j) == x.t)),
                     z3.Implies(z3.Not(b), z3.ForAll([i], z3.Implies(z3.And(0 <= i, i < ln), item(i) != x.t))))
            return b
        if k == "str":
            # substring test on opaque strings: uninterpreted
            f = z3.Function("str_contains", Val, Val, B)
            return f(coll.t, x.t)
        if k == "any":
            f = z3.Function("any_contains", Val, Val, B)
            fs = z3.Function("str_contains", Val, Val, B)
            return z3.If(is_dict_u(coll.t), s.d_has(Val.a(coll.t), x.t), z3.If(Val.is_str(coll.t), fs(coll.t, x.t), f(coll.t, x.t)))
        raise Untranslatable(f"'in' on {coll.ty}")

    def ev_Attribute(self, e, st):
        def f(s, v):
            return self.get_attr(s, v, e.attr, e)
        return self.bind(self.eval(e.value, st), f)

    def ev_Subscript(self, e, st):
        out = []
        if isinstance(e.slice, ast.Slice):
            sl = e.slice
            if sl.step is not None or (sl.lower is not None and not (isinstance(sl.lower, ast.Constant) and sl.lower.value == 0)):
                raise Untranslatable("slice with lower bound / step")
            exprs = [e.value] + ([sl.upper] if sl.upper is not None else [])
            for (s, vals, exc) in self.eval_many(exprs, st):
                if exc is not None:
                    out.append(Res(s, None, exc))
                    continue
                src = vals[0]
                if strip_opt(src.ty).kind != "list":
                    raise Untranslatable(f"slice of {src.ty}")
                a = Val.a(src.t)
                ln = s.l_len(a)
                if len(vals) > 1:
                    u = Val.i(vals[1].t)
                    eff = z3.If(u < 0, z3.If(ln + u < 0, 0, ln + u), z3.If(u < ln, u, ln))
                else:
                    eff = ln
                # prefix slice: a new list with the first `eff` items of the source
                b = s.new_list(z3.Select(s.heap["l_item"], a), eff)
                s.assume(ln >= 0)
                out.append(Res(s, SV(vref(b), strip_opt(src.ty))))
            return out
        for (s, vals, exc) in self.eval_many([e.value, e.slice], st):
            if exc is not None:
                out.append(Res(s, None, exc))
                continue
            out.extend(self.get_item(s, vals[0], vals[1], e))
        return out

    def ev_Await(self, e, st):
        return self.eval_await(e, st)

    def ev_Call(self, e, st):
        return self.eval_call(e, st)

    def ev_Yield(self, e, st):
        """`yield` inside a @contextmanager / @asynccontextmanager body: the with-block runs here (any code, any number of
        suspensions), then the generator is resumed normally or with the block's exception (A-CM)"""
        out = []
        vals = self.eval(e.value, st) if e.value is not None else [Res(st, NONE_SV)]
        for r in vals:
            if r.exc is not None:
                out.append(r)
                continue
            r.st.uses.add("A-CM")
            r.st.trace.append(("yield", r.val))
            if self.spec is not None and hasattr(self.spec, "at_yield"):
                self.spec.at_yield(self, r.st, r.val)
            if self.spec is not None and getattr(self.spec, "stop_at_yield", False):
                # contract about the entry half only (declared in the contract and in the evidence): the path ends here
                self.yield_stops = getattr(self, "yield_stops", 0) + 1
                continue
            out.extend(self.suspend(r.st, r.val, "yield"))
        return out

    def ev_Lambda(self, e, st):
        return [Res(st, self.make_closure(st, e, f"{self.fi.qual}.<lambda@{self.lambda_ordinal(e)}>"))]

    def lambda_ordinal(self, node):
        k = 0
        for n in ast.walk(self.fi.node):
            if isinstance(n, ast.Lambda):
                if n is node:
                    return k
                k += 1
        return k

    def ev_GeneratorExp(self, e, st):
        raise Untranslatable("generator expression outside all()/any()/tuple()")

    def ev_ListComp(self, e, st):
        return self.comprehension(e, st, "list")

    def ev_DictComp(self, e, st):
        return self.comprehension(e, st, "dict")

    def ev_Starred(self, e, st):
        raise Untranslatable("starred expression")
