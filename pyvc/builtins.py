"""pyvc engine part 4: builtins, container methods, comprehensions."""
from __future__ import annotations

import ast
import z3
from .smt import *
from .state import *


def _b(st, f):
    return [Res(st, SV(vbool(f), TBOOL))]


class BuiltinMixin:
    # helper: evaluate positional args of a builtin call
    def _args(self, node, st):
        if node.keywords and any(k.arg is None for k in node.keywords):
            raise Untranslatable("**kwargs to builtin")
        return self.eval_many(list(node.args) + [k.value for k in node.keywords], st)

    def _simple(self, node, st, fn):
        out = []
        for (s, vals, exc) in self._args(node, st):
            if exc is not None:
                out.append(Res(s, None, exc))
            else:
                out.extend(fn(s, vals))
        return out

    # ------------------------------------------------------------------ predicates
    def bi_isinstance(self, node, st):
        tnode = node.args[1]

        def one(s, v: SV, tn) -> object:
            if isinstance(tn, ast.Tuple):
                return z3.Or(*[one(s, v, x) for x in tn.elts])
            if isinstance(tn, ast.Call) and ast.unparse(tn) == "type(None)":
                return v.t == VNone
            # class given by a run-time value (self.event_class, a local variable): isinstance by the class lattice
            dyn = (isinstance(tn, ast.Name) and tn.id in s.env) or (
                isinstance(tn, ast.Attribute) and isinstance(tn.value, ast.Name) and tn.value.id in s.env)
            if dyn:
                rs = self.eval(tn, s.copy())
                if len(rs) != 1 or rs[0].exc is not None:
                    raise Untranslatable(f"isinstance against {ast.unparse(tn)}")
                return z3.And(Val.is_ref(v.t), subcls(s.fld("__class__", Val.a(v.t)), rs[0].val.t))
            if not isinstance(tn, (ast.Name, ast.Attribute)):
                raise Untranslatable(f"isinstance against {ast.unparse(tn)}")
            name = tn.id if isinstance(tn, ast.Name) else tn.attr
            k = strip_opt(v.ty).kind
            notnone = v.t != VNone
            if name == "dict":
                return z3.BoolVal(True) if v.ty.kind == "dict" else (z3.And(notnone, is_dict_u(v.t)) if k in ("any", "dict") else z3.BoolVal(False))
            if name in ("Mapping", "MutableMapping"):
                return z3.BoolVal(True) if v.ty.kind == "dict" else (z3.And(notnone, is_mapping_u(v.t)) if k in ("any", "dict") else z3.BoolVal(False))
            if name == "Sequence":
                if v.ty.kind in ("tuple", "list", "str", "emptytuple"):
                    return z3.BoolVal(True)
                return is_sequence_u(v.t)
            if name == "str":
                if v.ty.kind == "str":
                    return z3.BoolVal(True)
                return z3.And(Val.is_str(v.t), is_str_u(v.t)) if k in ("any", "str") else z3.BoolVal(False)
            if name == "int":
                if v.ty.kind in ("int", "bool"):
                    return z3.BoolVal(True)
                return z3.Or(Val.is_int(v.t), Val.is_bool(v.t)) if k == "any" else z3.BoolVal(False)
            if name in EXC_BASES or self.world.is_exception_class(name):
                if k in ("exc", "any"):
                    return z3.And(Val.is_ref(v.t), subcls(s.fld("__class__", Val.a(v.t)), con(name)))
                return z3.BoolVal(False)
            if name in self.world.classes or name in self.reg.lib_classes:
                if k in ("inst", "any", "lib"):
                    return z3.And(Val.is_ref(v.t), subcls(s.fld("__class__", Val.a(v.t)), con(name)))
                return z3.BoolVal(False)
            f = z3.Function("isinstance_u", Val, Val, B)
            return f(v.t, con(name))

        def fn(s, vals):
            return _b(s, one(s, vals[0], tnode))
        out = []
        for r in self.eval(node.args[0], st):
            out.extend([r] if r.exc is not None else fn(r.st, [r.val]))
        return out

    def bi_issubclass(self, node, st):
        def fn(s, vals):
            name = node.args[1].id if isinstance(node.args[1], ast.Name) else node.args[1].attr
            return _b(s, subcls(vals[0].t, con(name)))
        out = []
        for r in self.eval(node.args[0], st):
            out.extend([r] if r.exc is not None else fn(r.st, [r.val]))
        return out

    def bi_callable(self, node, st):
        def fn(s, vals):
            v = vals[0]
            if v.ty.kind in ("closure", "func", "bm", "libbm", "cbm", "class"):
                return _b(s, z3.BoolVal(True))
            if v.ty.kind in ("none", "str", "int", "bool", "dict", "list", "tuple"):
                return _b(s, z3.BoolVal(False))
            return _b(s, callable_u(v.t))
        return self._simple(node, st, fn)

    def bi_isclass(self, node, st):
        return self._simple(node, st, lambda s, v: _b(s, z3.BoolVal(True)) if v[0].ty.kind == "class" else _b(s, isclass_u(v[0].t)))

    def bi_isawaitable(self, node, st):
        return self._simple(node, st, lambda s, v: _b(s, z3.BoolVal(False)) if v[0].ty.kind == "none" else _b(s, isawaitable_u(v[0].t)))

    def bi_iscoroutine(self, node, st):
        return self._simple(node, st, lambda s, v: _b(s, iscoroutine_u(v[0].t)))

    def bi_iscoroutinefunction(self, node, st):
        f = z3.Function("iscoroutinefunction_u", Val, B)
        return self._simple(node, st, lambda s, v: _b(s, f(v[0].t)))

    def bi_isasyncgenfunction(self, node, st):
        f = z3.Function("isasyncgenfunction_u", Val, B)
        return self._simple(node, st, lambda s, v: _b(s, f(v[0].t)))

    def bi_get_origin(self, node, st):
        # only used as `get_origin(x) is not None` / `is Union`: result is an abstract value
        f = z3.Function("get_origin_u", Val, Val)
        def fn(s, v):
            return [Res(s, SV(f(v[0].t), ANY))]
        return self._simple(node, st, fn)

    def bi_get_args(self, node, st):
        def fn(s, v):
            gi, gl = fresh("ga_items", IV), fresh("ga_len", I)
            a = s.new_tuple(gi, gl)
            s.assume(gl >= 0)
            return [Res(s, SV(vref(a), TUP(ANY), (gi, gl)))]
        return self._simple(node, st, fn)

    def bi_hasattr(self, node, st):
        def fn(s, v):
            name = node.args[1].value
            if name in self.reg.unset_fields:
                return _b(s, z3.Select(s.heap["set:" + name], Val.a(v[0].t)))
            f = z3.Function("hasattr_u", Val, I, B)
            return _b(s, f(v[0].t, z3.IntVal(STRS.id(name))))
        out = []
        for r in self.eval(node.args[0], st):
            out.extend([r] if r.exc is not None else fn(r.st, [r.val]))
        return out

    def bi_type(self, node, st):
        def fn(s, v):
            x = v[0]
            if strip_opt(x.ty).kind in ("inst", "exc"):
                return [Res(s, SV(z3.If(Val.is_ref(x.t), s.fld("__class__", Val.a(x.t)), type_of(x.t)), ANY))]
            return [Res(s, SV(type_of(x.t), ANY))]
        return self._simple(node, st, fn)

    def bi_id(self, node, st):
        return self._simple(node, st, lambda s, v: [Res(s, SV(Val.int(fresh("id", I)), TINT))])

    def bi_len(self, node, st):
        def fn(s, v):
            x = v[0]
            k = strip_opt(x.ty).kind
            a = Val.a(x.t)
            ln = {"dict": s.d_len, "list": s.l_len, "tuple": s.t_len, "set": s.s_len}.get(k)
            if ln is None:
                if k == "emptytuple":
                    return [Res(s, SV(vint(0), TINT))]
                if k == "str":
                    f = z3.Function("str_len", Val, I)
                    s.assume(f(x.t) >= 0)
                    return [Res(s, SV(vint(f(x.t)), TINT))]
                raise Untranslatable(f"len of {x.ty}")
            s.assume(ln(a) >= 0)
            if k == "dict":
                self.truth(s, x)    # links len and key set
            return [Res(s, SV(vint(ln(a)), TINT))]
        return self._simple(node, st, fn)

    def bi_next(self, node, st):
        """next(iter(<dict>.values())): the value of some key of the dict (its first one); StopIteration when the dict is empty"""
        a0 = node.args[0] if node.args else None
        ok_shape = (isinstance(a0, ast.Call) and isinstance(a0.func, ast.Name) and a0.func.id == "iter" and len(a0.args) == 1
                    and isinstance(a0.args[0], ast.Call) and isinstance(a0.args[0].func, ast.Attribute) and a0.args[0].func.attr == "values"
                    and not a0.args[0].args)
        if not ok_shape or len(node.args) != 1:
            raise Untranslatable("next() over something else than iter(<dict>.values())")
        out = []
        for r in self.eval(a0.args[0].func.value, st):
            if r.exc is not None:
                out.append(r)
                continue
            d = r.val
            if strip_opt(d.ty).kind != "dict":
                raise Untranslatable(f"next(iter(x.values())) with x: {d.ty}")
            a = Val.a(d.t)
            s = r.st
            self.truth(s, d)          # links len and key set
            empty, some = s.fork(s.d_len(a) == 0, "empty"), s.fork(s.d_len(a) != 0)
            if self.feasible(empty):
                out.append(self.raise_new(empty, "StopIteration"))
            if self.feasible(some):
                k = fresh("firstkey")
                some.assume(some.d_has(a, k))
                vty = strip_opt(d.ty).args[1] if len(strip_opt(d.ty).args) > 1 else ANY
                some.trace.append(("first-value", a, k))
                out.append(Res(some, self.typed(some, some.d_get(a, k), vty)))
        return out

    def bi_all(self, node, st):
        return self._quant(node, st, True)

    def bi_any(self, node, st):
        return self._quant(node, st, False)

    def _quant(self, node, st, is_all):
        g = node.args[0]
        if not isinstance(g, ast.GeneratorExp) or len(g.generators) != 1 or g.generators[0].ifs:
            raise Untranslatable("all()/any() over something else than a simple generator")
        gen = g.generators[0]
        out = []
        for r in self.eval(gen.iter, st):
            if r.exc is not None:
                out.append(r)
                continue
            src = r.val
            k = strip_opt(src.ty).kind
            if k == "any":
                # iteration over a foreign iterable with a pure predicate: an unknown boolean (AX-ITER-PURE)
                r.st.uses.add("AX-ITER-PURE")
                out.append(Res(r.st, SV(vbool(fresh("anyall", B)), TBOOL)))
                continue
            if k not in ("tuple", "list"):
                raise Untranslatable(f"all()/any() over {src.ty}")
            a = Val.a(src.t)
            s = r.st
            ln = s.t_len(a) if k == "tuple" else s.l_len(a)
            # element predicate must be pure: evaluate it on a symbolic element
            i = z3.Const(f"i!q{self.nodes_translated}", I)
            item = s.t_item(a, i) if k == "tuple" else s.l_item(a, i)
            probe = s.copy()
            probe.env = dict(probe.env)
            self.assign(gen.target, SV(item, src.ty.args[0]), probe)
            rs = self.eval(g.elt, probe)
            if len(rs) != 1 or rs[0].exc is not None or len(rs[0].st.pc) != len(probe.pc):
                # predicate forks or raises: not a pure predicate
                pure = self.pure_pred(g.elt, gen.target, s, item, src)
                if pure is None:
                    raise Untranslatable("impure predicate in all()/any()")
                pred = pure
            else:
                pred = self.truth(rs[0].st, rs[0].val)
            b = fresh("q", B)
            j = fresh("qw", I)
            witness_pred = z3.substitute(pred, (i, j))
            rng = z3.And(0 <= i, i < ln)
            if is_all:
                s.assume(z3.Implies(b, z3.ForAll([i], z3.Implies(rng, pred))),
                         z3.Implies(z3.Not(b), z3.And(0 <= j, j < ln, z3.Not(witness_pred))))
            else:
                s.assume(z3.Implies(b, z3.And(0 <= j, j < ln, witness_pred)),
                         z3.Implies(z3.Not(b), z3.ForAll([i], z3.Implies(rng, z3.Not(pred)))))
            out.append(Res(s, SV(vbool(b), TBOOL)))
        return out

    def pure_pred(self, elt, target, s, item, src):
        """predicates made of or/and of pure builtin predicates on the element (evaluated without forking)"""
        if isinstance(elt, ast.BoolOp):
            parts = [self.pure_pred(v, target, s, item, src) for v in elt.values]
            if any(p is None for p in parts):
                return None
            return z3.And(*parts) if isinstance(elt.op, ast.And) else z3.Or(*parts)
        probe = s.copy()
        self.assign(target, SV(item, src.ty.args[0]), probe)
        rs = self.eval(elt, probe)
        if len(rs) == 1 and rs[0].exc is None:
            extra = rs[0].st.pc[len(probe.pc):]
            t = self.truth(rs[0].st, rs[0].val)
            return z3.And(t, *extra) if extra else t
        return None

    # ------------------------------------------------------------------ constructors of builtin containers
    def bi_dict(self, node, st):
        if node.keywords and not node.args:
            # dict(k=v, ...)
            out = []
            for (s, vals, exc) in self.eval_many([k.value for k in node.keywords], st):
                if exc is not None:
                    out.append(Res(s, None, exc))
                    continue
                a = s.new_dict()
                for k, v in zip(node.keywords, vals):
                    s.d_store(a, sid(k.arg), v.t)
                    self.escape_into(s, a, v)
                out.append(Res(s, SV(vref(a), DICT(TSTR, ANY))))
            return out

        def fn(s, v):
            if not v:
                return [Res(s, SV(vref(s.new_dict()), DICT()))]
            x = v[0]
            b = Val.a(x.t)
            a = s.new_dict(z3.Select(s.heap["d_has"], b), z3.Select(s.heap["d_get"], b), s.d_len(b))
            ty = strip_opt(x.ty) if strip_opt(x.ty).kind == "dict" else DICT()
            return [Res(s, SV(vref(a), ty))]
        return self._simple(node, st, fn)

    def bi_list(self, node, st):
        def fn(s, v):
            if not v:
                return [Res(s, SV(vref(s.new_list()), LIST()))]
            x = v[0]
            k = strip_opt(x.ty).kind
            b = Val.a(x.t)
            if k == "list":
                a = s.new_list(z3.Select(s.heap["l_item"], b), s.l_len(b))
                return [Res(s, SV(vref(a), x.ty))]
            if k == "tuple":
                a = s.new_list(z3.Select(s.heap["t_item"], b), s.t_len(b))
                return [Res(s, SV(vref(a), LIST(x.ty.args[0])))]
            raise Untranslatable(f"list({x.ty})")
        return self._simple(node, st, fn)

    def bi_tuple(self, node, st):
        if node.args and isinstance(node.args[0], (ast.GeneratorExp, ast.ListComp)):
            return self.comprehension(node.args[0], st, "tuple")

        def fn(s, v):
            x = v[0]
            k = strip_opt(x.ty).kind
            b = Val.a(x.t)
            if k == "tuple":
                return [Res(s, x)]
            if k == "list":
                a = s.new_tuple(z3.Select(s.heap["l_item"], b), s.l_len(b))
                return [Res(s, SV(vref(a), TUP(x.ty.args[0])))]
            if k == "any":
                # tuple(<unknown iterable>): arbitrary finite sequence (assumption: iterating it has no side effects)
                tpi, tpl = fresh("tp_items", IV), fresh("tp_len", I)
                a = s.new_tuple(tpi, tpl)
                s.assume(tpl >= 0)
                s.uses.add("AX-ITER-PURE")
                res = SV(vref(a), TUP(ANY), (tpi, tpl))
                s.ghost.setdefault("tuple_of", []).append((x, res))
                return [Res(s, res)]
            if k == "emptytuple":
                a = s.new_tuple(z3.K(I, VNone), z3.IntVal(0))
                return [Res(s, SV(vref(a), TUP(ANY)))]
            raise Untranslatable(f"tuple({x.ty})")
        return self._simple(node, st, fn)

    def bi_set(self, node, st):
        def fn(s, v):
            if v:
                raise Untranslatable("set(x)")
            return [Res(s, SV(vref(s.new_set()), SET()))]
        return self._simple(node, st, fn)

    # ------------------------------------------------------------------ dict methods
    def m_dict_get(self, st, d, pos, kw, node):
        a = Val.a(d.t)
        k = pos[0].t
        default = pos[1].t if len(pos) > 1 else VNone
        vty = strip_opt(d.ty).args[1]
        t = z3.If(st.d_has(a, k), st.d_get(a, k), default)
        rty = OPT(vty) if len(pos) == 1 and vty.kind not in ("any", "opt") else (vty if len(pos) == 1 else ANY)
        sv = SV(t, rty)
        self.wf_value(st, t)
        return [Res(st, sv)]

    def m_dict_copy(self, st, d, pos, kw, node):
        b = Val.a(d.t)
        a = st.new_dict(z3.Select(st.heap["d_has"], b), z3.Select(st.heap["d_get"], b), st.d_len(b))
        return [Res(st, SV(vref(a), strip_opt(d.ty)))]

    def m_dict_pop(self, st, d, pos, kw, node):
        a = Val.a(d.t)
        k = pos[0].t
        has = st.d_has(a, k)
        out = []
        vty = strip_opt(d.ty).args[1]
        if len(pos) > 1:
            t = z3.If(has, st.d_get(a, k), pos[1].t)
            st.trace.append(("dpop", d, pos[0]))
            st.d_del(a, k)
            self.wf_value(st, t)
            return [Res(st, SV(t, ANY if vty.kind == "any" else vty))]
        ok = st.fork(has)
        bad = st.fork(z3.Not(has), "KeyError")
        if self.feasible(ok):
            t = ok.d_get(a, k)
            ok.trace.append(("dpop", d, pos[0]))
            ok.d_del(a, k)
            out.append(Res(ok, self.typed(ok, t, vty)))
        if self.feasible(bad):
            out.append(self.raise_new(bad, "KeyError", [pos[0]]))
        return out

    def m_dict_setdefault(self, st, d, pos, kw, node):
        a = Val.a(d.t)
        k = pos[0].t
        dv = pos[1] if len(pos) > 1 else NONE_SV
        has = st.d_has(a, k)
        t = z3.If(has, st.d_get(a, k), dv.t)
        st.trace.append(("dsetdefault", d, pos[0], dv))
        has_arr = z3.Select(st.heap["d_has"], a)
        get_arr = z3.Select(st.heap["d_get"], a)
        st.heap["d_len"] = z3.Store(st.heap["d_len"], a, st.d_len(a) + z3.If(has, 0, 1))
        st.heap["d_get"] = z3.Store(st.heap["d_get"], a, z3.Store(get_arr, k, t))
        st.heap["d_has"] = z3.Store(st.heap["d_has"], a, z3.Store(has_arr, k, True))
        st.mark_written(a)
        self.escape_into(st, a, dv)
        self.wf_value(st, t)
        vty = strip_opt(d.ty).args[1] if strip_opt(d.ty).kind == "dict" else ANY
        return [Res(st, SV(t, vty if vty.kind != "any" and dv.ty == vty else ANY))]

    def m_dict_values(self, st, d, pos, kw, node):
        raise Untranslatable("dict.values() outside a for loop / comprehension")

    m_dict_items = m_dict_keys = m_dict_values

    # ------------------------------------------------------------------ list methods
    def m_str_split(self, st, s_, pos, kw, node):
        """str.split(sep[, maxsplit]) on opaque strings: a fresh list of strings given by uninterpreted functions of (s, sep, maxsplit);
        at least one item; with maxsplit n at most n+1 items; when sep occurs in s at least two items"""
        from .smt import split_len, split_item
        sep = pos[0].t if pos else VNone
        mx = pos[1].t if len(pos) > 1 else Val.int(z3.IntVal(-1))
        ln = split_len(s_.t, sep, mx)
        i = z3.Const("i!sp", I)
        items = fresh("split_items", IV)
        st.assume(z3.Select(items, 0) == split_item(s_.t, sep, mx, z3.IntVal(0)), z3.Select(items, 1) == split_item(s_.t, sep, mx, z3.IntVal(1)),
                  z3.ForAll([i], z3.Select(items, i) == split_item(s_.t, sep, mx, i), patterns=[z3.Select(items, i)]))
        a = st.new_list(items, ln)
        st.assume(ln >= 1)
        if len(pos) > 1:
            st.assume(z3.Implies(Val.i(mx) >= 0, ln <= Val.i(mx) + 1))
        if pos and strip_opt(pos[0].ty).kind == "str":
            f = z3.Function("str_contains", Val, Val, B)
            st.assume(z3.Implies(z3.And(f(s_.t, sep), Val.i(mx) != 0), ln >= 2))
        return [Res(st, SV(vref(a), LIST(TSTR)))]

    def m_str_join(self, st, s_, pos, kw, node):
        """sep.join(parts): an opaque string (uninterpreted function of separator and argument; strings are atoms)"""
        f = z3.Function("str_join", Val, Val, I)
        return [Res(st, self.typed(st, Val.str(f(s_.t, pos[0].t)), TSTR))]

    def m_list_extend(self, st, l, pos, kw, node):
        """list.extend(other list): appends the items of `other` in order"""
        a = Val.a(l.t)
        o = pos[0]
        if strip_opt(o.ty).kind != "list":
            raise Untranslatable(f"list.extend({o.ty})")
        b = Val.a(o.t)
        n, m = st.l_len(a), st.l_len(b)
        i = z3.Const("i!ext", I)
        old_items, add_items = z3.Select(st.heap["l_item"], a), z3.Select(st.heap["l_item"], b)
        new_items = fresh("ext_items", IV)
        st.assume(n >= 0, m >= 0,
                  z3.ForAll([i], z3.Select(new_items, i) == z3.If(z3.And(i >= n, i < n + m), z3.Select(add_items, i - n), z3.Select(old_items, i)),
                            patterns=[z3.Select(new_items, i)]))
        st.heap["l_item"] = z3.Store(st.heap["l_item"], a, new_items)
        st.heap["l_len"] = z3.Store(st.heap["l_len"], a, n + m)
        return [Res(st, NONE_SV)]

    def m_str_replace(self, st, s_, pos, kw, node):
        """str.replace(old, new) on opaque strings: an uninterpreted function of its three arguments"""
        from .smt import str_replace
        return [Res(st, self.typed(st, str_replace(s_.t, pos[0].t, pos[1].t), TSTR))]

    def m_list_append(self, st, l, pos, kw, node):
        a = Val.a(l.t)
        st.trace.append(("append", l, pos[0]))
        st.l_append(a, pos[0].t)
        self.escape_into(st, a, pos[0])
        if self.spec is not None:
            self.spec.on_event(self, st, ("append", l, pos[0]))
        return [Res(st, NONE_SV)]

    def m_list_pop(self, st, l, pos, kw, node):
        a = Val.a(l.t)
        ln = st.l_len(a)
        st.assume(ln >= 0)
        if pos:
            raise Untranslatable("list.pop(i)")
        ok = st.fork(ln > 0)
        bad = st.fork(ln <= 0, "IndexError")
        out = []
        if self.feasible(ok):
            t = ok.l_item(a, ln - 1)
            ok.heap["l_len"] = z3.Store(ok.heap["l_len"], a, ln - 1)
            v = self.typed(ok, t, strip_opt(l.ty).args[0])
            ok.trace.append(("pop", l, v))
            if self.spec is not None:
                self.spec.on_event(self, ok, ("pop", l, v))
            out.append(Res(ok, v))
        if self.feasible(bad):
            out.append(self.raise_new(bad, "IndexError"))
        return out

    def m_list_copy(self, st, l, pos, kw, node):
        b = Val.a(l.t)
        a = st.new_list(z3.Select(st.heap["l_item"], b), st.l_len(b))
        return [Res(st, SV(vref(a), strip_opt(l.ty)))]

    def m_list_remove(self, st, l, pos, kw, node):
        a = Val.a(l.t)
        x = pos[0].t
        ln = st.l_len(a)
        items = z3.Select(st.heap["l_item"], a)
        j = fresh("rm", I)
        i = z3.Const("i!rm", I)
        found = z3.And(0 <= j, j < ln, z3.Select(items, j) == x,
                       z3.ForAll([i], z3.Implies(z3.And(0 <= i, i < j), z3.Select(items, i) != x)))
        ok = st.fork(found)
        bad = st.fork(z3.ForAll([i], z3.Implies(z3.And(0 <= i, i < ln), z3.Select(items, i) != x)), "ValueError")
        out = []
        if self.feasible(ok):
            new = fresh("rm_items", IV)
            ok.assume(z3.ForAll([i], z3.Select(new, i) == z3.If(i < j, z3.Select(items, i), z3.Select(items, i + 1)),
                                patterns=[z3.Select(new, i)]))
            ok.heap["l_item"] = z3.Store(ok.heap["l_item"], a, new)
            ok.heap["l_len"] = z3.Store(ok.heap["l_len"], a, ln - 1)
            ok.trace.append(("remove", l, pos[0], j))
            out.append(Res(ok, NONE_SV))
        if self.feasible(bad):
            out.append(self.raise_new(bad, "ValueError"))
        return out

    # ------------------------------------------------------------------ set methods
    def m_set_add(self, st, s_, pos, kw, node):
        a = Val.a(s_.t)
        x = pos[0].t
        has = z3.Select(st.heap["s_has"], a)
        st.heap["s_len"] = z3.Store(st.heap["s_len"], a, st.s_len(a) + z3.If(z3.Select(has, x), 0, 1))
        st.heap["s_has"] = z3.Store(st.heap["s_has"], a, z3.Store(has, x, True))
        self.escape_into(st, a, pos[0])
        st.trace.append(("sadd", s_, pos[0]))
        return [Res(st, NONE_SV)]

    def m_set_discard(self, st, s_, pos, kw, node):
        a = Val.a(s_.t)
        x = pos[0].t
        has = z3.Select(st.heap["s_has"], a)
        st.heap["s_len"] = z3.Store(st.heap["s_len"], a, st.s_len(a) - z3.If(z3.Select(has, x), 1, 0))
        st.heap["s_has"] = z3.Store(st.heap["s_has"], a, z3.Store(has, x, False))
        st.trace.append(("sdiscard", s_, pos[0]))
        return [Res(st, NONE_SV)]

    def m_set_remove(self, st, s_, pos, kw, node):
        a = Val.a(s_.t)
        has = st.s_has(a, pos[0].t)
        ok = st.fork(has)
        bad = st.fork(z3.Not(has), "KeyError")
        out = []
        if self.feasible(ok):
            out.extend(self.m_set_discard(ok, s_, pos, kw, node))
        if self.feasible(bad):
            out.append(self.raise_new(bad, "KeyError", [pos[0]]))
        return out

    def m_set_copy(self, st, s_, pos, kw, node):
        b = Val.a(s_.t)
        a = st.new_ref()
        st.heap["s_has"] = z3.Store(st.heap["s_has"], a, z3.Select(st.heap["s_has"], b))
        st.heap["s_len"] = z3.Store(st.heap["s_len"], a, st.s_len(b))
        return [Res(st, SV(vref(a), strip_opt(s_.ty)))]

    # ------------------------------------------------------------------ comprehensions
    def comprehension(self, e, st, kind) -> list[Res]:
        """Single-clause comprehensions: the result is introduced with its defining axioms."""
        if len(e.generators) != 1:
            raise Untranslatable("multi-clause comprehension")
        gen = e.generators[0]
        src_expr, mode = self.iter_source(gen.iter)
        out = []
        for r in self.eval(src_expr, st):
            if r.exc is not None:
                out.append(r)
                continue
            h = self.reg.comprehension_handler(self, e, kind, mode)
            if h is None:
                raise Untranslatable(f"{kind} comprehension at line {e.lineno} has no defining axioms in the registry")
            out.extend(h(self, r.st, r.val, e, gen))
        return out
