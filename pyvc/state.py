"""Symbolic state of one path of one function activation."""
from __future__ import annotations

import z3
from dataclasses import dataclass, field
from .smt import *


class Untranslatable(Exception):
    """The function leaves the accepted subset (DESIGN 2.2): reported, never guessed."""


@dataclass
class Obl:
    id: str
    kind: str                 # pre post exc inv-init inv-keep guar inv frame cover canary census atomic lemma
    hyps: list
    goal: object
    anchor: str = ""
    expect: str = "unsat"     # 'unsat' = goal must be valid; 'sat' = hyps /\ goal must be satisfiable (cover)
    path: str = ""
    uses: tuple = ()          # assumed-contract ids used on the path
    heavy: tuple = ()         # second-stage hypotheses


class State:
    __slots__ = ("env", "envty", "heap", "pc", "ghost", "owned", "exc_reg", "seg", "trace", "tags",
                 "envref", "uses", "suspended", "loopvars", "defs", "lazy", "heavy")

    def __init__(self):
        self.env: dict[str, SV] = {}
        self.heap: dict[str, object] = {}
        self.pc: list = []
        self.ghost: dict[str, object] = {}
        self.owned: list = []            # z3 Int terms: addresses of fresh, non-escaped objects
        self.exc_reg: SV = NONE_SV       # exception being handled (sys.exc_info()[1])
        self.seg: dict[str, object] = {}  # heap at the start of the current atomic segment
        self.trace: list = []            # semantic events (tuples), per path
        self.tags: list[str] = []        # path label
        self.envref = None               # address of this activation's cell environment
        self.uses: set[str] = set()      # assumed-contract ids used so far
        self.suspended = z3.BoolVal(False)   # ghost: has this activation passed a suspension point
        self.loopvars: dict = {}
        self.defs: list = []             # definitions of named heap snapshots (name == term)
        self.lazy: list = []             # (invariant name, formula): hypotheses used only where requested
        self.heavy: list = []            # quantified background facts: used only when the light hypotheses do not suffice

    def copy(self) -> "State":
        s = State()
        s.env = dict(self.env)
        s.heap = dict(self.heap)
        s.pc = list(self.pc)
        s.ghost = dict(self.ghost)
        s.owned = list(self.owned)
        s.exc_reg = self.exc_reg
        s.seg = self.seg
        s.trace = list(self.trace)
        s.tags = list(self.tags)
        s.envref = self.envref
        s.uses = set(self.uses)
        s.suspended = self.suspended
        s.loopvars = dict(self.loopvars)
        s.defs = list(self.defs)
        s.lazy = list(self.lazy)
        s.heavy = list(self.heavy)
        return s

    def assume(self, *fs):
        for f in fs:
            if f is not None and not z3.is_true(f):
                self.pc.append(f)
        return self

    def fork(self, cond, tag=None) -> "State":
        s = self.copy()
        s.assume(cond)
        if tag:
            s.tags.append(tag)
        return s

    # ---------------------------------------------------------------- heap access
    def h(self, comp):
        return self.heap[comp]

    def set_h(self, comp, arr):
        self.heap[comp] = arr

    def fld(self, name, a):
        """read attribute `name` of object at address a (Int term)"""
        return z3.Select(self.heap["fld:" + name], a)

    def set_fld(self, name, a, v):
        k = "fld:" + name
        self.heap[k] = z3.Store(self.heap[k], a, v)

    @property
    def alloc(self):
        return self.heap["alloc"]

    def new_ref(self, owned=True, kind="obj"):
        a = self.heap["alloc"]
        self.heap["alloc"] = a + 1
        if "g:owner" in self.heap and kind != "env":
            # ghost ownership tag: a freshly allocated object belongs to nobody (contexts tag their containers later)
            self.heap["g:owner"] = z3.Store(self.heap["g:owner"], a, con("own:nobody"))
        if owned:
            self.owned.append(a)
            self.loopvars = dict(self.loopvars)
            self.loopvars.setdefault("owned_kind", {})
            self.loopvars["owned_kind"] = dict(self.loopvars["owned_kind"])
            self.loopvars["owned_kind"][a.get_id()] = kind
        return a

    # dict
    def d_has(self, a, k):
        return z3.Select(z3.Select(self.heap["d_has"], a), k)

    def d_get(self, a, k):
        return z3.Select(z3.Select(self.heap["d_get"], a), k)

    def d_len(self, a):
        return z3.Select(self.heap["d_len"], a)

    def d_store(self, a, k, v):
        has = z3.Select(self.heap["d_has"], a)
        get = z3.Select(self.heap["d_get"], a)
        ln = z3.Select(self.heap["d_len"], a)
        self.heap["d_len"] = z3.Store(self.heap["d_len"], a, ln + z3.If(z3.Select(has, k), 0, 1))
        self.heap["d_has"] = z3.Store(self.heap["d_has"], a, z3.Store(has, k, True))
        self.heap["d_get"] = z3.Store(self.heap["d_get"], a, z3.Store(get, k, v))
        self.mark_written(a)

    def mark_written(self, a):
        """ghost write log: dicts written by THIS activation (callees' writes are not logged)"""
        self.heap["w_dict"] = z3.Store(self.heap["w_dict"], a, True)

    def d_del(self, a, k):
        has = z3.Select(self.heap["d_has"], a)
        ln = z3.Select(self.heap["d_len"], a)
        self.heap["d_len"] = z3.Store(self.heap["d_len"], a, ln - z3.If(z3.Select(has, k), 1, 0))
        self.heap["d_has"] = z3.Store(self.heap["d_has"], a, z3.Store(has, k, False))
        self.mark_written(a)

    def new_dict(self, has=None, get=None, ln=None):
        a = self.new_ref(kind="dict")
        self.heap["d_has"] = z3.Store(self.heap["d_has"], a, has if has is not None else z3.K(Val, z3.BoolVal(False)))
        if get is not None:
            self.heap["d_get"] = z3.Store(self.heap["d_get"], a, get)
        self.heap["d_len"] = z3.Store(self.heap["d_len"], a, ln if ln is not None else z3.IntVal(0))
        self.assume(is_dict_u(vref(a)), is_mapping_u(vref(a)))
        return a

    # list
    def l_len(self, a):
        return z3.Select(self.heap["l_len"], a)

    def l_item(self, a, i):
        return z3.Select(z3.Select(self.heap["l_item"], a), i)

    def new_list(self, items=None, ln=None):
        a = self.new_ref(kind="list")
        if items is not None:
            self.heap["l_item"] = z3.Store(self.heap["l_item"], a, items)
        self.heap["l_len"] = z3.Store(self.heap["l_len"], a, ln if ln is not None else z3.IntVal(0))
        return a

    def l_append(self, a, v):
        ln = self.l_len(a)
        items = z3.Select(self.heap["l_item"], a)
        self.heap["l_item"] = z3.Store(self.heap["l_item"], a, z3.Store(items, ln, v))
        self.heap["l_len"] = z3.Store(self.heap["l_len"], a, ln + 1)

    # tuple
    def t_len(self, a):
        return z3.Select(self.heap["t_len"], a)

    def t_item(self, a, i):
        return z3.Select(z3.Select(self.heap["t_item"], a), i)

    def new_tuple(self, items, ln):
        a = self.new_ref(kind="tuple")
        self.heap["t_item"] = z3.Store(self.heap["t_item"], a, items)
        self.heap["t_len"] = z3.Store(self.heap["t_len"], a, ln)
        return a

    # set
    def s_has(self, a, v):
        return z3.Select(z3.Select(self.heap["s_has"], a), v)

    def s_len(self, a):
        return z3.Select(self.heap["s_len"], a)

    def new_set(self):
        a = self.new_ref(kind="set")
        self.heap["s_has"] = z3.Store(self.heap["s_has"], a, z3.K(Val, z3.BoolVal(False)))
        self.heap["s_len"] = z3.Store(self.heap["s_len"], a, z3.IntVal(0))
        return a

    def label(self):
        return "/".join(self.tags)

    def name_heap(self):
        """give every non-constant heap component a name (fresh constant equal to the term): quantified
        clauses and their patterns then mention plain constants instead of store chains"""
        for c, t in list(self.heap.items()):
            if z3.is_const(t) and t.decl().kind() == z3.Z3_OP_UNINTERPRETED:
                continue
            if c == "alloc" and z3.is_int_value(t):
                continue
            n = fresh("H." + c, t.sort())
            self.pc.append(n == t)
            self.defs.append(n == t)
            self.heap[c] = n
        return self

    def import_defs(self, other: "State"):
        """make the heap-snapshot names of another state (e.g. the entry state) meaningful here"""
        have = {d.get_id() for d in self.pc}
        for d in other.defs:
            if d.get_id() not in have:
                self.pc.append(d)
                self.defs.append(d)


@dataclass
class Res:
    st: State
    val: SV | None = None
    exc: SV | None = None       # not None => evaluation raised


@dataclass
class Outcome:
    kind: str                   # normal return raise break continue
    st: State
    val: SV | None = None


class HeapView:
    """Read-only accessor over a heap dict (used by specs for old/new states)."""

    def __init__(self, heap):
        self.heap = heap

    def h(self, comp):
        return self.heap[comp]

    def fld(self, name, a):
        return z3.Select(self.heap["fld:" + name], a)

    def isset(self, name, a):
        return z3.Select(self.heap["set:" + name], a)

    @property
    def alloc(self):
        return self.heap["alloc"]

    def d_has(self, a, k):
        return z3.Select(z3.Select(self.heap["d_has"], a), k)

    def d_hasarr(self, a):
        return z3.Select(self.heap["d_has"], a)

    def d_getarr(self, a):
        return z3.Select(self.heap["d_get"], a)

    def d_get(self, a, k):
        return z3.Select(z3.Select(self.heap["d_get"], a), k)

    def d_len(self, a):
        return z3.Select(self.heap["d_len"], a)

    def l_len(self, a):
        return z3.Select(self.heap["l_len"], a)

    def l_item(self, a, i):
        return z3.Select(z3.Select(self.heap["l_item"], a), i)

    def l_items(self, a):
        return z3.Select(self.heap["l_item"], a)

    def t_len(self, a):
        return z3.Select(self.heap["t_len"], a)

    def t_item(self, a, i):
        return z3.Select(z3.Select(self.heap["t_item"], a), i)

    def s_has(self, a, v):
        return z3.Select(z3.Select(self.heap["s_has"], a), v)

    def s_hasarr(self, a):
        return z3.Select(self.heap["s_has"], a)

    def s_len(self, a):
        return z3.Select(self.heap["s_len"], a)

    def g(self, name):
        return self.heap[name]


def A(v):
    """address of a ref value (SV or term)"""
    t = v.t if isinstance(v, SV) else v
    return Val.a(t)
