"""debug runner: python3-vt -m pyvc.run1 <qual> [-v]"""
import sys, json
sys.path.insert(0, "/verif")
from pyvc.world import World
from pyvc.driver import verify_function
from contracts import build_registry

if __name__ == "__main__":
    w = World()
    reg = build_registry(w)
    for q in sys.argv[1:]:
        if q.startswith("-"):
            continue
        r = verify_function(w, reg, q)
        print(q, r["status"], r.get("reason", ""), "paths", r.get("paths"), "wall", round(r["wall_s"], 2))
        for o in r["obligations"]:
            flag = "ok " if o["status"] == "discharged" else o["status"].upper()
            print(f"  {flag:10s} {o['seconds']:7.3f}s {o['backend']:12s} {o['id']}   [{o['path']}]")
            if o["status"] != "discharged" and "-v" in sys.argv:
                print("      ", o.get("model", o.get("reason", ""))[:1500].replace("\n", "\n       "))
