"""Single-clause comprehensions: the result collection is introduced with its defining axioms
(DESIGN Appendix C rule 8).  Element / condition expressions must be pure; they are evaluated on a
symbolic element and quantified."""
from __future__ import annotations

import ast
import z3
from .smt import *
from .state import *

tmem = z3.Function("tmem", IV, I, Val, B)      # membership in an immutable sequence (items, len, v)
tidx = z3.Function("tidx", IV, I, Val, I)      # witness index


is_seq = z3.Function("is_seq", IV, I, B)       # marker: (items, len) is a sequence under discussion (enables the intro axiom)


def tmem_axioms():
    items = z3.Const("it!tm", IV)
    ln = z3.Const("ln!tm", I)
    v = z3.Const("v!tm", Val)
    i = z3.Const("i!tm", I)
    return [z3.ForAll([items, ln, v],
                      z3.Implies(tmem(items, ln, v),
                                 z3.And(0 <= tidx(items, ln, v), tidx(items, ln, v) < ln,
                                        z3.Select(items, tidx(items, ln, v)) == v)),
                      patterns=[tmem(items, ln, v)]),
            # definition of membership, other direction (only for marked sequences: keeps instantiation local)
            z3.ForAll([items, ln, i],
                      z3.Implies(z3.And(is_seq(items, ln), 0 <= i, i < ln), tmem(items, ln, z3.Select(items, i))),
                      patterns=[z3.MultiPattern(is_seq(items, ln), z3.Select(items, i))])]


def tmem_intro(items, ln):
    """(items, len) is a sequence under discussion: every element in range is a member"""
    i = z3.Const("i!tmi", I)
    return z3.And(is_seq(items, ln),
                  z3.ForAll([i], z3.Implies(z3.And(0 <= i, i < ln), tmem(items, ln, z3.Select(items, i))),
                            patterns=[z3.Select(items, i)]))


def pure_eval(eng, st: State, expr: ast.expr, bindings: dict[str, SV]):
    """evaluate a side-effect-free expression on a scratch copy of the state; -> SV"""
    scratch = st.copy()
    for n, v in bindings.items():
        scratch.env[n] = v
    rs = eng.eval(expr, scratch)
    rs = [r for r in rs]
    if len(rs) != 1 or rs[0].exc is not None:
        # boolean structure forks: rebuild as ite over truth values
        if isinstance(expr, ast.BoolOp):
            parts = [pure_eval(eng, st, v, bindings) for v in expr.values]
            ts = [eng.truth(st.copy(), p) for p in parts]
            f = z3.And(*ts) if isinstance(expr.op, ast.And) else z3.Or(*ts)
            return SV(vbool(f), TBOOL)
        raise Untranslatable(f"impure expression in comprehension: {ast.unparse(expr)}")
    return rs[0].val


def pure_truth(eng, st, expr, bindings):
    v = pure_eval(eng, st, expr, bindings)
    return eng.truth(st.copy(), v)


def target_bind(target, key: SV | None, val: SV | None, item: SV | None):
    if isinstance(target, ast.Name):
        return {target.id: item}
    if isinstance(target, ast.Tuple) and len(target.elts) == 2 and all(isinstance(x, ast.Name) for x in target.elts):
        return {target.elts[0].id: key, target.elts[1].id: val}
    raise Untranslatable("comprehension target")


def generic(eng, st: State, src: SV, e, gen, kind: str, mode: str) -> list[Res]:
    conds = gen.ifs
    sk = strip_opt(src.ty).kind
    if mode.startswith("dict_") or sk == "dict":
        if sk != "dict":
            raise Untranslatable(f"comprehension over {src.ty}")
        a = Val.a(src.t)
        kty, vty = strip_opt(src.ty).args
        has, get = z3.Select(st.heap["d_has"], a), z3.Select(st.heap["d_get"], a)
        k = z3.Const(f"k!c{e.lineno}", Val)
        keyv, valv = SV(k, kty), SV(z3.Select(get, k), vty)
        if mode == "dict_items":
            b = target_bind(gen.target, keyv, valv, None)
        elif mode == "dict_values":
            b = target_bind(gen.target, None, None, valv)
        else:
            b = target_bind(gen.target, None, None, keyv)
        cond = z3.And(*[pure_truth(eng, st, c, b) for c in conds]) if conds else z3.BoolVal(True)
        if kind == "dict":
            rk = pure_eval(eng, st, e.key, b)
            rv = pure_eval(eng, st, e.value, b)
            h2, g2 = fresh("c_has", KB), fresh("c_get", KV)
            ln = fresh("c_len", I)
            if rk.t.eq(k):
                # key-preserving filter/map of a dict
                st.assume(z3.ForAll([k], z3.Select(h2, k) == z3.And(z3.Select(has, k), cond), patterns=[z3.Select(h2, k)]),
                          z3.ForAll([k], z3.Implies(z3.Select(h2, k), z3.Select(g2, k) == rv.t), patterns=[z3.Select(g2, k)]),
                          ln >= 0, ln <= st.d_len(a))
                rty = DICT(kty, rv.ty)
            else:
                w = fresh("c_wit", KV)
                n = z3.Const(f"n!c{e.lineno}", Val)
                sub = lambda t: z3.substitute(t, (k, z3.Select(w, n)))
                st.assume(z3.ForAll([k], z3.Implies(z3.And(z3.Select(has, k), cond), z3.Select(h2, rk.t)),
                                    patterns=[z3.Select(has, k)]),
                          z3.ForAll([n], z3.Implies(z3.Select(h2, n),
                                                    z3.And(sub(z3.Select(has, k)), sub(cond), sub(rk.t) == n,
                                                           z3.Select(g2, n) == sub(rv.t))),
                                    patterns=[z3.Select(h2, n)]),
                          ln >= 0, ln <= st.d_len(a))
                rty = DICT(rk.ty, rv.ty)
            r = st.new_dict(h2, g2, ln)
            return [Res(st, SV(vref(r), rty))]
        raise Untranslatable("non-dict comprehension over a dict")
    if sk in ("tuple", "list"):
        a = Val.a(src.t)
        ety = strip_opt(src.ty).args[0]
        items = z3.Select(st.heap["t_item" if sk == "tuple" else "l_item"], a)
        ln = st.t_len(a) if sk == "tuple" else st.l_len(a)
        if sk == "tuple" and src.aux is not None:
            items, ln = src.aux
        st.assume(ln >= 0)
        j = z3.Const(f"j!c{e.lineno}", I)
        b = target_bind(gen.target, None, None, SV(z3.Select(items, j), ety))
        cond = z3.And(*[pure_truth(eng, st, c, b) for c in conds]) if conds else None
        elt_expr = e.elt if not isinstance(e, ast.DictComp) else None
        if elt_expr is None:
            raise Untranslatable("dict comprehension over a sequence")
        rv = pure_eval(eng, st, elt_expr, b)
        r_items = fresh("c_items", IV)
        i = z3.Const(f"i!c{e.lineno}", I)
        if cond is None:
            st.assume(z3.ForAll([i], z3.Implies(z3.And(0 <= i, i < ln),
                                                z3.Select(r_items, i) == z3.substitute(rv.t, (j, i))),
                                patterns=[z3.Select(r_items, i)]))
            r_len = ln
        else:
            r_len = fresh("c_len", I)
            idx = fresh("c_idx", AI)
            pos = fresh("c_pos", AI)
            i2 = z3.Const(f"i2!c{e.lineno}", I)
            at = lambda t, x: z3.substitute(t, (j, x))
            st.assume(r_len >= 0, r_len <= ln,
                      z3.ForAll([i], z3.Implies(z3.And(0 <= i, i < r_len),
                                                z3.And(0 <= z3.Select(idx, i), z3.Select(idx, i) < ln,
                                                       at(cond, z3.Select(idx, i)),
                                                       z3.Select(r_items, i) == at(rv.t, z3.Select(idx, i)))),
                                patterns=[z3.Select(r_items, i)]),
                      z3.ForAll([i, i2], z3.Implies(z3.And(0 <= i, i < i2, i2 < r_len),
                                                    z3.Select(idx, i) < z3.Select(idx, i2)),
                                patterns=[z3.MultiPattern(z3.Select(idx, i), z3.Select(idx, i2))]),
                      z3.ForAll([j], z3.Implies(z3.And(0 <= j, j < ln, cond),
                                                z3.And(0 <= z3.Select(pos, j), z3.Select(pos, j) < r_len,
                                                       z3.Select(idx, z3.Select(pos, j)) == j)),
                                patterns=[z3.Select(items, j)]))
            # derived membership characterisation when element and condition depend on the index only through the element
            if rv.t.eq(z3.Select(items, j)):
                v = z3.Const(f"v!c{e.lineno}", Val)
                cond_v = z3.substitute(cond, (z3.Select(items, j), v))
                if not eng.mentions(cond_v, j):
                    st.assume(z3.ForAll([v], tmem(r_items, r_len, v) == z3.And(tmem(items, ln, v), cond_v),
                                        patterns=[tmem(r_items, r_len, v)]))
            st.ghost.setdefault("filters", []).append(dict(src=src, items=items, ln=ln, r_items=r_items, r_len=r_len,
                                                           idx=idx, pos=pos, cond=(j, cond), line=e.lineno))
        if kind == "tuple":
            r = st.new_tuple(r_items, r_len)
            st.assume(tmem_intro(r_items, r_len))
            return [Res(st, SV(vref(r), TUP(rv.ty), (r_items, r_len)))]
        r = st.new_list(r_items, r_len)
        return [Res(st, SV(vref(r), LIST(rv.ty)))]
    raise Untranslatable(f"comprehension over {src.ty}")
