"""pyvc engine part 3: attribute/item access, containers, calls (contracted / assumed / opaque), havoc."""
from __future__ import annotations

import ast
import z3
from .smt import *
from .state import *

attr_of = z3.Function("attr_of", Val, I, Val)        # attribute of a non-heap value (class, function)
ATTRS = Interner()


class CallMixin:
    # ------------------------------------------------------------------ exceptions
    def new_exception(self, st: State, cls: str, args: list[SV], cls_term=None) -> SV:
        a = st.new_ref(owned=False)
        st.set_fld("__class__", a, cls_term if cls_term is not None else con(cls))
        st.set_fld("__cause__", a, VNone)
        names = self.reg.exc_arg_names.get(cls, [])
        for i, v in enumerate(args):
            st.set_fld(names[i] if i < len(names) else f"arg{i}", a, v.t)
        st.trace.append(("new_exc", cls, a))
        if self.spec is not None and hasattr(self.spec, "on_new_exception") and not getattr(self, "_dry", 0):
            self.spec.on_new_exception(self, st, cls, a, args)
        return SV(vref(a), TEXC)

    def raise_new(self, st: State, cls: str, args=()) -> Res:
        return Res(st, None, self.new_exception(st, cls, list(args)))

    def unknown_exception(self, st: State, what="exc") -> SV:
        """an arbitrary BaseException raised by foreign code"""
        t = fresh(what)
        st.assume(Val.is_ref(t), Val.a(t) >= 0, Val.a(t) < st.alloc,
                  subcls(st.fld("__class__", Val.a(t)), con("BaseException")))
        return SV(t, TEXC)

    # ------------------------------------------------------------------ attributes
    def get_attr(self, st: State, v: SV, attr: str, node=None) -> list[Res]:
        ty = strip_opt(v.ty)
        k = ty.kind
        if k == "inst":
            return self.inst_attr(st, v, ty.name, attr)
        if k == "exc":
            return [Res(st, SV(st.fld(attr, Val.a(v.t)), self.reg.exc_field_types.get(attr, ANY)))]
        if k == "lib":
            fty = self.reg.lib_field_type(ty.name, attr)
            if fty is not None:
                return [Res(st, self.typed(st, st.fld(attr, Val.a(v.t)), fty))]
            return [Res(st, SV(Val.bm(v.t, z3.IntVal(METHS.id(attr))), Ty("libbm", (), f"{ty.name}.{attr}")))]
        if k in ("class",):
            ci = self.world.classes.get(ty.name)
            if ci is not None:
                fi = self.world.find_method(ty.name, attr)
                if fi is not None:
                    return [Res(st, SV(con(f"{ty.name}.{attr}"), Ty("func", (), fi.qual)))]
                _, val = self.world.class_attr(ty.name, attr)
                if val is not None or "Enum" in ci.bases:
                    return [Res(st, SV(con(f"{ty.name}.{attr}"), TCON))]
            return [Res(st, SV(con(f"{ty.name}.{attr}"), TCON))]
        if k in ("ext", "global", "con", "func"):
            base = ty.name or str(v.t)
            if k == "con":
                return [Res(st, SV(attr_of(v.t, z3.IntVal(ATTRS.id(attr))), ANY))]
            return [Res(st, SV(con(f"{base}.{attr}"), Ty("ext", (), f"{base}.{attr}")))]
        if k in ("dict", "list", "set", "tuple", "str", "pair", "closure", "bm"):
            return [Res(st, SV(Val.bm(v.t, z3.IntVal(METHS.id(attr))), Ty("cbm", (), attr)))]
        if k == "any":
            t = z3.If(Val.is_ref(v.t), st.fld(attr, Val.a(v.t)), attr_of(v.t, z3.IntVal(ATTRS.id(attr))))
            r = SV(t, ANY)
            self.wf_value(st, t)
            return [Res(st, r)]
        raise Untranslatable(f"attribute {attr} of {v.ty}")

    def inst_attr(self, st: State, v: SV, cls: str, attr: str) -> list[Res]:
        fty = self.reg.field_type(self.world, cls, attr)
        if fty is not None:
            a = Val.a(v.t)
            if attr in self.reg.unset_fields:
                s_ok = st.fork(z3.Select(st.heap["set:" + attr], a))
                s_bad = st.fork(z3.Not(z3.Select(st.heap["set:" + attr], a)), f"unset-{attr}")
                out = []
                if self.feasible(s_ok):
                    out.append(Res(s_ok, self.typed(s_ok, s_ok.fld(attr, a), fty)))
                if self.feasible(s_bad):
                    out.append(self.raise_new(s_bad, "AttributeError"))
                return out
            return [Res(st, self.typed(st, st.fld(attr, a), fty))]
        ci, val = self.world.class_attr(cls, attr)
        if val is not None and isinstance(val, ast.Call) and isinstance(val.func, ast.Name) and val.func.id == "Signal":
            # descriptor protocol: Signal.__get__(declaration, instance, owner)
            decl = self.reg.signal_decl(ci.name, attr)
            return self.call_spec(st, "_event.Signal.__get__", [decl, v, SV(con(cls), TCON)], {}, f"attr:{attr}")
        fi = self.world.find_method(cls, attr)
        if fi is not None:
            if "property" in fi.decorators:
                return self.call_spec(st, fi.qual, [v], {}, f"prop:{attr}")
            return [Res(st, SV(Val.bm(v.t, z3.IntVal(METHS.id(attr))), Ty("bm", (), fi.qual)))]
        # attribute of a subclass: allowed where the object is known to be of that subclass (checked)
        subs = [c for c in self.world.classes if cls in self.world.mro(c) and c != cls and attr in self.reg.schema.get(c, {})]
        if len(subs) == 1:
            sub = subs[0]
            self.oblige(st, "pre", f"downcast-to-{sub}-is-safe", subcls(st.fld("__class__", Val.a(v.t)), con(sub)),
                        f"attr:{attr}#{self.call_ord.setdefault('dc:' + attr, 0)}")
            return [Res(st, self.typed(st, st.fld(attr, Val.a(v.t)), self.reg.schema[sub][attr]))]
        raise Untranslatable(f"attribute {cls}.{attr} is not in the schema")

    def set_attr(self, st: State, obj: SV, attr: str, v: SV, node=None) -> list[Outcome]:
        k = strip_opt(obj.ty).kind
        if k not in ("inst", "any", "lib", "exc"):
            raise Untranslatable(f"attribute store on {obj.ty}")
        a = Val.a(obj.t)
        if k == "inst":
            fty = self.reg.field_type(self.world, obj.ty.name, attr)
            if fty is None:
                raise Untranslatable(f"store to undeclared field {obj.ty.name}.{attr}")
        st.set_fld(attr, a, v.t)
        if attr in self.reg.unset_fields:
            st.heap["set:" + attr] = z3.Store(st.heap["set:" + attr], a, True)
        self.escape(st, v)
        st.trace.append(("fstore", obj, attr, v))
        return [Outcome("normal", st)]

    # ------------------------------------------------------------------ items
    def get_item(self, st: State, coll: SV, key: SV, node=None) -> list[Res]:
        ty = strip_opt(coll.ty)
        k = ty.kind
        if k == "dict" or (k == "any"):
            a = Val.a(coll.t)
            has = st.d_has(a, key.t)
            ok = st.fork(has)
            bad = st.fork(z3.Not(has), "KeyError")
            out = []
            if self.feasible(ok):
                vty = ty.args[1] if k == "dict" else ANY
                out.append(Res(ok, self.typed(ok, ok.d_get(a, key.t), vty)))
            if self.feasible(bad):
                out.append(self.raise_new(bad, "KeyError", [key]))
            return out
        if k in ("list", "tuple"):
            a = Val.a(coll.t)
            i = Val.i(key.t)
            ln = st.l_len(a) if k == "list" else st.t_len(a)
            idx = z3.If(i < 0, ln + i, i)
            inb = z3.And(idx >= 0, idx < ln)
            ok = st.fork(inb)
            bad = st.fork(z3.Not(inb), "IndexError")
            out = []
            if self.feasible(ok):
                item = ok.l_item(a, idx) if k == "list" else ok.t_item(a, idx)
                out.append(Res(ok, self.typed(ok, item, ty.args[0])))
            if self.feasible(bad):
                out.append(self.raise_new(bad, "IndexError"))
            return out
        if k == "pair":
            if isinstance(node.slice, ast.Constant) and node.slice.value in (0, 1):
                return [Res(st, SV(Val.fst(coll.t) if node.slice.value == 0 else Val.snd(coll.t), ty.args[node.slice.value]))]
        if k in ("class", "ext", "con", "func"):      # generic alias  set[Context], create_memory_object_stream[T]
            return [Res(st, coll)]
        raise Untranslatable(f"subscript on {coll.ty}")

    def set_item(self, st: State, coll: SV, key: SV, v: SV, node=None) -> list[Outcome]:
        k = strip_opt(coll.ty).kind
        if k in ("dict", "any"):
            a = Val.a(coll.t)
            st.trace.append(("dstore", coll, key, v))
            st.d_store(a, key.t, v.t)
            self.escape_into(st, a, v)
            return [Outcome("normal", st)]
        raise Untranslatable(f"item store on {coll.ty}")

    # ------------------------------------------------------------------ ownership / escape
    def mentions(self, term, sub) -> bool:
        seen = set()
        todo = [term]
        sid_ = sub.get_id()
        while todo:
            t = todo.pop()
            i = t.get_id()
            if i in seen:
                continue
            seen.add(i)
            if i == sid_:
                return True
            todo.extend(t.children())
        return False

    def may_be_ref_to(self, term, a) -> bool:
        """can the value `term` be (or structurally contain) a reference to the owned object at address `a`?  An owned object is
        reachable only from this activation's locals and from other owned objects, so a value *read out of* a container or field (a
        Select / function application) cannot be a reference to it; only a term built from ref(a) itself (possibly under If / pair) can."""
        seen = set()
        todo = [term]
        while todo:
            t = todo.pop()
            i = t.get_id()
            if i in seen:
                continue
            seen.add(i)
            if not z3.is_app(t):
                continue
            k = t.decl().kind()
            name = t.decl().name()
            if k == z3.Z3_OP_ITE:
                todo.extend(t.children()[1:])
            elif k == z3.Z3_OP_DT_CONSTRUCTOR:
                if name == "ref":
                    if self.mentions(t.arg(0), a):
                        return True
                else:
                    todo.extend(t.children())
            # anything else (heap reads, uninterpreted functions, constants): not a reference to an owned object
        return False

    def escape(self, st: State, v: SV):
        if not st.owned:
            return
        cand = [a for a in st.owned if self.mentions(v.t, a)]
        if not cand:
            return
        t = z3.simplify(v.t)
        drop = {a.get_id() for a in cand if self.may_be_ref_to(t, a)}
        if drop:
            st.owned = [a for a in st.owned if a.get_id() not in drop]

    def escape_into(self, st: State, container_addr, v: SV):
        """storing v into a container: v escapes unless the container itself is still owned"""
        if any(self.mentions(container_addr, a) for a in st.owned):
            return
        self.escape(st, v)

    # ------------------------------------------------------------------ segment end / havoc
    # ------------------------------------------------------------------ frame rule (private writes preserve the class invariants)
    FRAME_CONT = ("d_has", "d_get", "d_len", "l_len", "l_item", "s_has", "s_len")
    FRAME_XS = ("g:xs_len", "g:xs_item")        # exit stacks: private = not (yet) the stack of any context (ghost g:xs_owner is None)
    FRAME_OK = set(FRAME_CONT) | set(FRAME_XS) | {"alloc", "g:owner", "g:xs_owner", "fld:__class__", "w_dict", "mycalls"}

    def frame_premise(self, old, new, comps_changed):
        """the writes since `old` touched containers only at private addresses: allocated since `old`, or owned by nobody in `old`;
        module-level objects (negative addresses) are never private; ownership and class tags of existing objects are unchanged and
        new objects are owned by nobody"""
        x = z3.Const("x!fr", I)
        nobody = con("own:nobody")
        priv = z3.And(x >= 0, z3.Or(x >= old.alloc, z3.Select(old.g("g:owner"), x) == nobody))
        out = [("alloc-monotone", z3.And(new.alloc >= old.alloc, old.alloc >= 0))]
        for c in self.FRAME_CONT:
            if comps_changed is None or c in comps_changed:
                out.append((f"only-private-containers-written:{c}",
                            z3.ForAll([x], z3.Or(z3.Select(new.h(c), x) == z3.Select(old.h(c), x), priv), patterns=[z3.Select(new.h(c), x)])))
        if comps_changed is None or "g:owner" in comps_changed:
            out.append(("ownership-changes-only-by-new-objects-owned-by-nobody",
                        z3.ForAll([x], z3.Or(z3.Select(new.g("g:owner"), x) == z3.Select(old.g("g:owner"), x),
                                             z3.And(x >= old.alloc, z3.Select(new.g("g:owner"), x) == nobody)),
                                  patterns=[z3.Select(new.g("g:owner"), x)])))
        if "g:xs_owner" in self.comps:
            privx = z3.And(x >= 0, z3.Or(x >= old.alloc, z3.Select(old.g("g:xs_owner"), x) == VNone))
            for c in self.FRAME_XS:
                if comps_changed is None or c in comps_changed:
                    out.append((f"only-private-exit-stacks-written:{c}",
                                z3.ForAll([x], z3.Or(z3.Select(new.h(c), x) == z3.Select(old.h(c), x), privx), patterns=[z3.Select(new.h(c), x)])))
            if comps_changed is None or "g:xs_owner" in comps_changed:
                out.append(("exit-stack-ownership-changes-only-by-new-unowned-stacks",
                            z3.ForAll([x], z3.Or(z3.Select(new.g("g:xs_owner"), x) == z3.Select(old.g("g:xs_owner"), x),
                                                 z3.And(x >= old.alloc, z3.Select(new.g("g:xs_owner"), x) == VNone)),
                                      patterns=[z3.Select(new.g("g:xs_owner"), x)])))
        if comps_changed is None or "fld:__class__" in comps_changed:
            out.append(("class-of-existing-objects-unchanged",
                        z3.ForAll([x], z3.Implies(z3.And(0 <= x, x < old.alloc), z3.Select(new.h("fld:__class__"), x) == z3.Select(old.h("fld:__class__"), x)),
                                  patterns=[z3.Select(new.h("fld:__class__"), x)])))
        return out

    def frame_lemmas(self):
        """Lemma FR(I), proved once per run for every class invariant I and guarantee G (obligations of the pseudo-function `lemma:frame`):
        all invariants at H and frame_premise(H, H') imply I(H') resp. G(H, H').  -> {name: discharged?}"""
        if getattr(self.reg, "_frame_lemmas", None) is not None:
            return self.reg._frame_lemmas
        import time as _t
        H = self.fresh_heap("FA")
        H2 = dict(H)
        for c in self.FRAME_CONT + ("alloc", "g:owner", "fld:__class__") + (self.FRAME_XS + ("g:xs_owner",) if "g:xs_owner" in self.comps else ()):
            H2[c] = fresh("FB." + c, self.comps[c])
        A, Bv = HeapView(H), HeapView(H2)
        hyps = [f for _, f in self.frame_premise(A, Bv, None)] + [e[1](A) for e in self.reg.invariants]
        res, obls = {}, []
        goals = [(e[0], e[1](Bv)) for e in self.reg.invariants] + [(e[0], e[1](A, Bv)) for e in self.reg.guarantees]
        for (name, goal) in goals + [("canary:frame-hypotheses-not-contradictory", None)]:
            s = z3.Solver()
            s.set("timeout", 20000 if goal is not None else 3000)
            for a in self.axioms:
                s.add(a)
            for f in hyps:
                s.add(f)
            if goal is not None:
                s.add(z3.Not(goal))
            t0 = _t.time()
            r = s.check()
            if goal is None:
                ok = r != z3.unsat
            else:
                ok = r == z3.unsat
                res[name] = ok
            obls.append({"id": f"lemma:frame#{'canary' if goal is None else 'lemma'}:{name}", "kind": "canary" if goal is None else "lemma",
                         "path": "", "uses": [], "expect": "not-unsat" if goal is None else "unsat",
                         "status": "discharged" if ok else "unknown", "backend": "z3-5.1(api)", "seconds": _t.time() - t0})
            if goal is None and not ok:
                res = {k: False for k in res}
        self.reg._frame_lemmas = res
        self.reg._frame_obls = obls
        return res

    def segment_end(self, st: State, anchor: str):
        """An atomic segment ends here (suspension point, opaque call or function exit):
        prove the guarantee and the class invariants the environment relies on.  A clause whose footprint
        (the heap components it reads) is untouched since the segment began holds trivially and is skipped.
        Contracts with `frame_rule`: a clause whose footprint was written only in container components is discharged by the frame
        lemma FR (proved separately) from one shared premise: only private containers were written."""
        if not self.spec or not self.spec.check_guarantee:
            return
        changed = {c for c in self.comps if not (st.heap[c] is st.seg.get(c) or st.heap[c].eq(st.seg[c]))}
        if not changed:
            return
        st.name_heap()
        old = HeapView(st.seg)
        new = HeapView(st.heap)
        lem = self.frame_lemmas() if getattr(self.spec, "frame_rule", False) else {}
        premise_done = []

        def by_frame(name, fp):
            if not lem.get(name) or fp is None or not ((set(fp) & changed) <= self.FRAME_OK):
                return False
            if not premise_done:
                premise_done.append(1)
                for (n, f) in self.frame_premise(old, new, changed):
                    self.oblige(st, "frame", n, f, anchor)
                st.uses.add("lemma:frame")
            return True
        for entry in self.reg.guarantees:
            name, fn = entry[0], entry[1]
            fp = entry[2] if len(entry) > 2 else None
            if fp is not None and not (set(fp) & changed):
                continue
            if by_frame(name, fp):
                continue
            self.oblige(st, "guar", name, fn(old, new), anchor)
        for entry in self.reg.invariants:
            name, fn = entry[0], entry[1]
            fp = entry[2] if len(entry) > 2 else None
            if name in self.spec.suspended_invariants:
                continue
            if fp is not None and not (set(fp) & changed):
                continue
            if by_frame(name, fp):
                continue
            self.oblige(st, "inv", name, fn(new), anchor)

    def close_segment(self, st: State, anchor: str):
        """frame_rule contracts: end the atomic segment here (sound: more boundaries, each proved) and start a new one"""
        self.segment_end(st, anchor)
        st.seg = dict(st.heap)

    def assume_invariant(self, st: State, entry, H):
        """class invariants are hypotheses; `lazy` ones only for the obligations that ask for them"""
        opts = entry[3] if len(entry) > 3 else {}
        if opts.get("lazy"):
            st.lazy.append((entry[0], entry[1](H)))
        else:
            st.assume(entry[1](H))

    def assume_immutables(self, s2: State, st: State, newheap):
        """ground instances of the immutability clauses (construction-time fields, classes, tuples) for the objects
        in scope, between the heap of `st` and `newheap` (same facts as the quantified rely clauses)"""
        scope = list(st.env.items())
        if "outer_env" in st.ghost and self.spec is not None:
            for n, ty in getattr(self.spec, "cell_types", {}).items():
                if n in self.freevars:
                    a_ = st.ghost["outer_env"]
                    for _ in range(getattr(self, "free_depth", {}).get(n, 1) - 1):
                        a_ = Val.a(z3.Select(st.heap["fld:cell:__parent__"], a_))
                    scope.append(("cell:" + n, SV(z3.Select(st.heap["fld:cell:" + n], a_), ty)))
        for n, v in scope:
            k = strip_opt(v.ty)
            if k.kind in ("any", "exc", "lib"):
                a = Val.a(v.t)
                s2.assume(z3.Implies(z3.And(Val.is_ref(v.t), 0 <= a, a < st.heap["alloc"]),
                                     z3.Select(newheap["fld:__class__"], a) == z3.Select(st.heap["fld:__class__"], a)))
            if k.kind != "inst":
                continue
            a = Val.a(v.t)
            guard = z3.And(Val.is_ref(v.t), 0 <= a, a < st.heap["alloc"])
            for fn_ in getattr(self.reg, "ground_rely", ()):
                g_ = fn_(self, st.heap, newheap, a, k.name)
                if g_ is not None:
                    s2.assume(z3.Implies(guard, g_))
            for item in self.reg.immutable_fields:
                if isinstance(item, tuple) and item[0] in self.world.mro(k.name):
                    c = "fld:" + item[1]
                    s2.assume(z3.Implies(z3.And(guard, subcls(z3.Select(st.heap["fld:__class__"], a), con(item[0]))),
                                         z3.Select(newheap[c], a) == z3.Select(st.heap[c], a)))
                    fty = self.reg.schema.get(item[0], {}).get(item[1])
                    if fty is not None and strip_opt(fty).kind == "tuple":
                        tv = z3.Select(st.heap[c], a)
                        ta = Val.a(tv)
                        g2 = z3.And(guard, Val.is_ref(tv), 0 <= ta, ta < st.heap["alloc"])
                        s2.assume(z3.Implies(g2, z3.And(z3.Select(newheap["t_item"], ta) == z3.Select(st.heap["t_item"], ta),
                                                        z3.Select(newheap["t_len"], ta) == z3.Select(st.heap["t_len"], ta))))
            s2.assume(z3.Implies(guard, z3.Select(newheap["fld:__class__"], a) == z3.Select(st.heap["fld:__class__"], a)))

    def havoc(self, st: State, anchor: str, callee=None) -> State:
        """Foreign code runs (other tasks at an await, user code in an opaque call): new heap under the rely.
        With `callee` (a contracted coroutine that suspends): the callee's own effects are part of the step, so the
        environment-only clauses are replaced by what the callee's contract declares (env_preserved)."""
        s2 = st.copy()
        old = HeapView(st.heap)
        newheap = self.fresh_heap("hv")
        newheap["w_dict"] = st.heap["w_dict"]        # activation-local ghosts
        newheap["mycalls"] = st.heap["mycalls"]
        s2.heap = newheap
        new = HeapView(newheap)
        s2.assume(new.alloc >= old.alloc)
        wanted = set(getattr(self.spec, "uses_invariants", ()) or ())
        env_only = {e[0] for e in self.reg.extra_rely}
        for entry in self.reg.rely_clauses(self):
            if len(entry) > 3 and entry[3].get("lazy") and entry[0] not in wanted:
                continue            # proved for every segment, but used as a hypothesis only where a contract asks for it
            if callee is not None and entry[0] in env_only and entry[0] in getattr(callee, "changes_env", ()):
                continue            # the callee itself changes this (e.g. Context.__aenter__/__aexit__ and the current context)
            if entry[0].startswith(("immutable:", "set-monotone:")):
                # quantified immutability: ground instances for the objects in scope are assumed below; the
                # quantified form is a second-stage hypothesis
                s2.heavy.append(entry[1](old, new))
            else:
                s2.assume(entry[1](old, new))
        for entry in self.reg.invariants:
            self.assume_invariant(s2, entry, new)
        for (cls_, addr_) in st.loopvars.get("open_cms", ()):
            fn_ = self.reg.with_rely.get(cls_)
            if fn_ is not None:
                s2.uses.add("A-WITH")
                s2.assume(fn_(old, new, addr_))
        if self.spec is not None and hasattr(self.spec, "extra_rely"):
            import inspect
            er = self.spec.extra_rely
            clauses = er(self, st, anchor) if len(inspect.signature(er).parameters) >= 3 else er(self, st)
            for (name, fn) in clauses:
                s2.assume(fn(old, new))
        self.assume_immutables(s2, st, newheap)
        # objects owned by this activation are untouched (only the components that describe an object of that kind)
        KIND_COMPS = {"dict": ("d_has", "d_get", "d_len"), "list": ("l_len", "l_item"), "set": ("s_has", "s_len"),
                      "tuple": ("t_len", "t_item"), "env": ()}
        kinds = st.loopvars.get("owned_kind", {})
        for a in st.owned:
            kind = kinds.get(a.get_id(), "obj")
            cs = KIND_COMPS.get(kind)
            if cs is None:
                cs = [c for c, srt in self.comps.items() if c != "alloc" and z3.is_array(newheap[c]) and newheap[c].sort().domain() == I]
            for c in cs:
                s2.assume(z3.Select(newheap[c], a) == z3.Select(st.heap[c], a))
        # cells of the enclosing activations read by this closure: written only by the enclosing function itself (which
        # has finished with them when the closure runs) unless some closure declares them nonlocal
        if "outer_env" in st.ghost:
            for n in self.freevars:
                if n in self.nonlocal_written:
                    continue
                a_old = st.ghost["outer_env"]
                for _ in range(getattr(self, "free_depth", {}).get(n, 1) - 1):
                    a_old = Val.a(z3.Select(st.heap["fld:cell:__parent__"], a_old))
                c = "fld:cell:" + n
                s2.assume(z3.Select(newheap[c], a_old) == z3.Select(st.heap[c], a_old))
            s2.assume(z3.Select(newheap["fld:cell:__parent__"], st.ghost["outer_env"]) == z3.Select(st.heap["fld:cell:__parent__"], st.ghost["outer_env"]))
        # this activation's cells: written only by this activation and its nonlocal-writing closures
        if st.envref is not None:
            for n in self.cellvars:
                if n not in self.nonlocal_written:
                    c = "fld:cell:" + n
                    s2.assume(z3.Select(newheap[c], st.envref) == z3.Select(st.heap[c], st.envref))
        s2.seg = dict(newheap)
        s2.tags.append(anchor)
        # vacuity guard: the rely + invariants + assumptions after this havoc must not be contradictory
        if not getattr(self, "_dry", 0):
            self.oblige(s2, "canary", "rely-not-contradictory", z3.BoolVal(False), anchor, expect="not-unsat")
        return s2

    def opaque_call(self, st: State, f: SV, args: list[SV], anchor: str, what="call") -> list[Res]:
        n = self.call_ord.get(what, 0)
        self.call_ord[what] = n + 1
        anc = f"{what}{n}" if anchor is None else anchor
        for a in args:
            self.escape(st, a)
        self.escape(st, f)
        if self.spec is not None:
            self.spec.on_opaque_call(self, st, f, args, anc)
        st.heap["mycalls"] = z3.Store(st.heap["mycalls"], f.t, z3.Select(st.heap["mycalls"], f.t) + 1)
        self.segment_end(st, anc)
        s2 = self.havoc(st, anc)
        out = []
        ok = s2.copy()
        res = fresh("ret")
        self.wf_value(ok, res)
        ok.trace.append(("opaque", f, args, SV(res, ANY), anc))
        rv = SV(res, ANY)
        for key, (rty, aid) in getattr(self.spec, "opaque_result_types", {}).items() if self.spec is not None else ():
            if (key(anc) if callable(key) else key in anc):
                rv = self.typed(ok, res, rty)
                ok.uses.add(aid)
        if self.spec is not None:
            self.spec.after_opaque_call(self, st, ok, f, args, rv, None, anc)
        out.append(Res(ok, rv))
        bad = s2.copy()
        bad.tags.append("raises")
        e = self.unknown_exception(bad)
        bad.trace.append(("opaque-raise", f, args, e, anc))
        if self.spec is not None:
            self.spec.after_opaque_call(self, st, bad, f, args, None, e, anc)
        out.append(Res(bad, None, e))
        return out

    def eval_await(self, e: ast.Await, st: State) -> list[Res]:
        inner = e.value
        # `await f(...)` with f a contracted coroutine function: the call applies the contract
        if isinstance(inner, ast.Call):
            tgt = self.static_callee(inner, st)
            if tgt is not None:
                return self.eval_call(inner, st, awaited=True)
        out = []
        for r in self.eval(inner, st):
            if r.exc is not None:
                out.append(r)
                continue
            out.extend(self.suspend(r.st, r.val, "await"))
        return out

    def suspend(self, st: State, awaited: SV, what="await") -> list[Res]:
        n = self.call_ord.get(what, 0)
        self.call_ord[what] = n + 1
        anc = f"{what}{n}"
        self.escape(st, awaited)
        if self.spec is not None:
            self.spec.on_await(self, st, awaited, anc)
        self.segment_end(st, anc)
        st.trace.append(("suspend", anc))
        s2 = self.havoc(st, anc)
        s2.suspended = z3.BoolVal(True)
        ok = s2.copy()
        res = fresh("awaited")
        self.wf_value(ok, res)
        if self.spec is not None:
            self.spec.after_await(self, st, ok, awaited, SV(res, ANY), None, anc)
        bad = s2.copy()
        bad.tags.append("raises")
        e = self.unknown_exception(bad)
        if self.spec is not None:
            self.spec.after_await(self, st, bad, awaited, None, e, anc)
        return [Res(ok, SV(res, ANY)), Res(bad, None, e)]

    # ------------------------------------------------------------------ calls
    def static_callee(self, node: ast.Call, st: State):
        """qualname of a contracted coroutine function this call statically resolves to, else None"""
        f = node.func
        if isinstance(f, ast.Name) and f.id not in st.env:
            r = self.world.resolve_global(self.module, f.id)
            if r and r[0] == "func" and r[1].qual in self.reg.specs:
                return r[1].qual
        return "?" if isinstance(f, (ast.Attribute, ast.Name)) else None

    def eval_args(self, node: ast.Call, st: State):
        """-> list of (state, posargs, kwargs, star, exc); star = opaque *args/**kwargs packs present"""
        pos = [a for a in node.args if not isinstance(a, ast.Starred)]
        stars = [a.value for a in node.args if isinstance(a, ast.Starred)]
        kws = [k for k in node.keywords if k.arg is not None]
        dstars = [k.value for k in node.keywords if k.arg is None]
        exprs = pos + [k.value for k in kws] + stars + dstars
        out = []
        for (s, vals, exc) in self.eval_many(exprs, st):
            if exc is not None:
                out.append((s, None, None, None, exc))
                continue
            p = vals[:len(pos)]
            kw = {k.arg: v for k, v in zip(kws, vals[len(pos):len(pos) + len(kws)])}
            packs = vals[len(pos) + len(kws):]
            out.append((s, p, kw, packs, None))
        return out

    def is_logging_call(self, node: ast.Call) -> bool:
        f = node.func
        return (isinstance(f, ast.Attribute) and isinstance(f.value, ast.Name) and f.value.id in ("logger",)
                and f.attr in ("debug", "info", "warning", "error", "exception", "critical"))

    def eval_call(self, node: ast.Call, st: State, awaited=False) -> list[Res]:
        f = node.func
        if self.spec is not None and ast.unparse(node) in getattr(self.spec, "pure_exprs", ()):
            # declared pure by the contract (assumed: introspection helpers): an unknown value, no effect
            st.uses.add("AX-ITER-PURE")
            return [Res(st, SV(fresh("pure"), ANY))]
        if self.is_logging_call(node):
            # dropped (DESIGN 2.3): argument expressions are still evaluated
            self.drop("logging-call")
            out = []
            for (s, p, kw, packs, exc) in self.eval_args(node, st):
                out.append(Res(s, None, exc) if exc is not None else Res(s, NONE_SV))
            return out
        if isinstance(f, ast.Name) and f.id == "cast" and len(node.args) == 2:
            self.drop("cast")
            return self.eval(node.args[1], st)
        if (isinstance(f, ast.Subscript) and isinstance(f.value, ast.Name) and f.value.id in ("set", "list", "dict")
                and f.value.id not in st.env):
            node = ast.Call(func=ast.Name(id=f.value.id, ctx=ast.Load()), args=node.args, keywords=node.keywords)
            ast.copy_location(node, f)
            f = node.func
        if isinstance(f, ast.Subscript) and isinstance(f.value, ast.Name) and f.value.id not in st.env and f.value.id not in self.freevars:
            rg0 = self.world.resolve_global(self.module, f.value.id)
            if rg0 is not None and rg0[0] == "ext":
                # subscripted generic alias of an external callable (create_memory_object_stream[T](...)): the type argument has no run-time effect
                node = ast.Call(func=f.value, args=node.args, keywords=node.keywords)
                ast.copy_location(node, f)
                f = node.func
        if isinstance(f, ast.Name) and f.id not in st.env and f.id not in self.freevars:
            h = getattr(self, "bi_" + f.id, None)
            rg = self.world.resolve_global(self.module, f.id)
            if h is not None and (rg is None or rg[0] == "ext"):
                return h(node, st)
        # general case: evaluate callee, then arguments
        out = []
        if (isinstance(f, ast.Attribute) and isinstance(f.value, ast.Call) and isinstance(f.value.func, ast.Name)
                and f.value.func.id == "super" and not f.value.args and self.fi.cls and "self" in st.env):
            # zero-argument super(): the next definition of the method in the static MRO of the defining class (single inheritance
            # inside the package: the receiver's dynamic class has the same linearisation suffix)
            target = None
            for c in self.world.mro(self.fi.cls)[1:]:
                ci = self.world.classes[c]
                target = self.world.funcs.get(f"{ci.module}.{c}.{f.attr}")
                if target:
                    break
            if target is None or target.qual not in self.reg.specs:
                raise Untranslatable(f"super().{f.attr} has no contract")
            for (s, p, kw, packs, exc) in self.eval_args(node, st):
                if exc is not None:
                    out.append(Res(s, None, exc))
                    continue
                out.extend(self.call_spec(s, target.qual, [s.env["self"]] + p, kw, self.anchor_for(node), awaited=awaited, packs=packs))
            return out
        if isinstance(f, ast.Attribute):
            for r in self.eval(f.value, st):
                if r.exc is not None:
                    out.append(r)
                    continue
                for (s, p, kw, packs, exc) in self.eval_args(node, r.st):
                    if exc is not None:
                        out.append(Res(s, None, exc))
                        continue
                    out.extend(self.call_method(s, r.val, f.attr, p, kw, packs, node, awaited))
            return out
        for r in self.eval(f, st):
            if r.exc is not None:
                out.append(r)
                continue
            for (s, p, kw, packs, exc) in self.eval_args(node, r.st):
                if exc is not None:
                    out.append(Res(s, None, exc))
                    continue
                out.extend(self.call_value(s, r.val, p, kw, packs, node, awaited))
        return out

    def call_value(self, st: State, fv: SV, pos, kw, packs, node, awaited=False) -> list[Res]:
        k = fv.ty.kind
        if k == "func":
            qual = fv.ty.name
            if qual in self.reg.func_calls:
                return self.reg.func_calls[qual](self, st, pos, kw, node)
            if qual in self.reg.specs:
                return self.call_spec(st, qual, pos, kw, self.anchor_for(node), awaited=awaited, packs=packs)
            return self.opaque_call(st, fv, pos + list(kw.values()) + list(packs), None, f"call({qual.split('.')[-1]})")
        if k == "class":
            return self.construct(st, fv.ty.name, pos, kw, node)
        if k == "closure":
            qual = fv.ty.name
            fi = self.world.funcs.get(qual)
            if fi is not None and fi.is_async and any(isinstance(n, (ast.Yield, ast.YieldFrom)) for n in self.world._own_nodes(fi.node)):
                # calling an async generator function creates the generator object; no part of its body runs (language semantics)
                a = st.new_ref(owned=False)
                st.set_fld("__class__", a, con("async_generator:" + qual))
                st.trace.append(("new-generator", qual, a))
                return [Res(st, SV(vref(a), ANY))]
            if qual in self.reg.specs:
                env = SV(Val.recv(fv.t), ANY)
                return self.call_spec(st, qual, pos, kw, self.anchor_for(node), awaited=awaited, env=env, packs=packs)
            if fi is not None and not fi.is_async and self.inline_depth < 2:
                return self.inline_closure(st, fi, pos, kw)
            return self.opaque_call(st, fv, pos + list(kw.values()), None, f"call({qual.split('.')[-1]})")
        if k == "bm":
            qual = fv.ty.name
            recv = SV(Val.recv(fv.t), self.reg.self_type(self.world, qual))
            if qual in self.reg.specs and getattr(self.reg.specs[qual], "generator_cm", False):
                return self.make_gcm(st, qual, [recv] + pos, kw)
            if qual in self.reg.specs:
                return self.call_spec(st, qual, [recv] + pos, kw, self.anchor_for(node), awaited=awaited, packs=packs)
        if k == "ext":
            h = self.reg.ext_calls.get(fv.ty.name)
            if h is not None:
                return h(self, st, pos, kw, node)
        if k == "libbm":
            return self.reg.lib_call(self, st, fv.ty.name, SV(Val.recv(fv.t), ANY), pos, kw, node, awaited)
        if k == "wref":
            # A-WR: calling a weak reference yields its target while it is alive, else None
            st.uses.add("A-WR")
            alive = fresh("alive", B)
            return [Res(st, SV(z3.If(alive, Val.target(fv.t), VNone), ANY))]
        # unknown callable value: opaque
        label = ast.unparse(node.func) if node is not None else "value"
        return self.opaque_call(st, fv, pos + list(kw.values()) + list(packs), None, f"call({label})")

    def anchor_for(self, node) -> str:
        label = ast.unparse(node.func).replace("self.", "") if node is not None else "?"
        n = self.call_ord.get(label, 0)
        self.call_ord[label] = n + 1
        return f"{label}#{n}"

    def make_gcm(self, st: State, qual: str, pos, kw) -> list[Res]:
        """a @contextmanager function/method with a contract marked generator_cm: the call only creates the context manager (its body
        runs inside `with` / enter_context)"""
        bound = self.bind_params(self.world.funcs[qual], self.reg.specs[qual], pos, kw, st=st)
        items = z3.K(I, VNone)
        names = list(bound)
        for i_, n_ in enumerate(names):
            items = z3.Store(items, i_, bound[n_].t)
        ta = st.new_tuple(items, z3.IntVal(len(names)))
        st.trace.append(("new-cm", qual, dict(bound)))
        return [Res(st, SV(vref(ta), Ty("gcm", (), qual), tuple(bound[n_] for n_ in names)))]

    def call_method(self, st: State, recv: SV, meth: str, pos, kw, packs, node, awaited=False) -> list[Res]:
        ty = strip_opt(recv.ty)
        k = ty.kind
        if k in ("dict", "list", "set", "tuple", "str"):
            h = getattr(self, f"m_{k}_{meth}", None)
            if h is None:
                raise Untranslatable(f"method {k}.{meth}")
            return h(st, recv, pos, kw, node)
        if k == "inst":
            fty = self.reg.field_type(self.world, ty.name, meth)
            if fty is not None:      # a field holding a callable, e.g. factory.callback()
                fv = self.typed(st, st.fld(meth, Val.a(recv.t)), fty)
                return self.call_value(st, fv, pos, kw, packs, node, awaited)
            fi = self.world.find_method(ty.name, meth)
            if fi is not None:
                if fi.qual in self.reg.specs and getattr(self.reg.specs[fi.qual], "generator_cm", False):
                    return self.make_gcm(st, fi.qual, [recv] + pos, kw)
                if fi.qual in self.reg.specs:
                    first = [] if "staticmethod" in fi.decorators else [recv]
                    return self.call_spec(st, fi.qual, first + pos, kw, self.anchor_for(node), awaited=awaited, packs=packs)
                return self.opaque_call(st, recv, pos + list(kw.values()), None, f"call({ty.name}.{meth})")
            raise Untranslatable(f"unknown method {ty.name}.{meth}")
        if k == "lib":
            return self.reg.lib_call(self, st, f"{ty.name}.{meth}", recv, pos, kw, node, awaited)
        if k in ("ext", "class", "global"):
            for r in self.get_attr(st, recv, meth):
                return self.call_value(r.st, r.val, pos, kw, packs, node, awaited)
        if k == "exc":
            raise Untranslatable(f"method call on exception: {meth}")
        # method of a value of unknown type: user code - unless the value is a str and the method is a modelled str method
        h = getattr(self, f"m_str_{meth}", None)
        if h is not None and k == "any":
            isstr = z3.And(Val.is_str(recv.t), is_str_u(recv.t))
            s1, s2 = st.fork(isstr, "is-str"), st.fork(z3.Not(isstr))
            out = []
            if self.feasible(s1):
                out.extend(h(s1, SV(recv.t, TSTR), pos, kw, node))
            if self.feasible(s2) and self.feasible_full(s2):
                out.extend(self.opaque_call(s2, recv, pos + list(kw.values()) + list(packs), None, f"call(.{meth})"))
            return out
        return self.opaque_call(st, recv, pos + list(kw.values()) + list(packs), None, f"call(.{meth})")

    # ------------------------------------------------------------------ contracted call (modular)
    def bind_params(self, fi, spec, pos, kw, env=None, st=None):
        """match arguments against the callee's real signature (read from its AST)"""
        a = fi.node.args
        names = [x.arg for x in a.posonlyargs + a.args]
        defaults = dict(zip(reversed(names), reversed(a.defaults)))
        for x, d in zip(a.kwonlyargs, a.kw_defaults):
            names.append(x.arg)
            if d is not None:
                defaults[x.arg] = d
        bound: dict[str, SV] = {}
        npos = len(a.posonlyargs + a.args)
        if len(pos) > npos and a.vararg is None:
            raise Untranslatable(f"too many positional arguments for {fi.qual}")
        if a.vararg is not None:
            extra = pos[npos:]
            items = z3.K(I, VNone)
            for i, v in enumerate(extra):
                items = z3.Store(items, i, v.t)
            ta = st.new_tuple(items, z3.IntVal(len(extra)))
            from .comps import tmem_intro, tmem
            st.assume(tmem_intro(items, z3.IntVal(len(extra))))
            for v in extra:
                st.assume(tmem(items, z3.IntVal(len(extra)), v.t))
            bound[a.vararg.arg] = SV(vref(ta), TUP(ANY), (items, z3.IntVal(len(extra))))
        if a.kwarg is not None:
            da = st.new_dict()
            for n, v in kw.items():
                if n not in names:
                    st.d_store(da, sid(n), v.t)
            bound[a.kwarg.arg] = SV(vref(da), DICT(TSTR, ANY))
        for n, v in zip([x.arg for x in a.posonlyargs + a.args], pos):
            bound[n] = v
        for n, v in kw.items():
            if n in names:
                bound[n] = v
            elif a.kwarg is None:
                raise Untranslatable(f"unexpected keyword {n} for {fi.qual}")
        for n in names:
            if n not in bound:
                if n in defaults:
                    d = defaults[n]
                    bound[n] = self.const_default(d)
                else:
                    raise Untranslatable(f"missing argument {n} for {fi.qual}")
        return bound

    def const_default(self, d: ast.expr) -> SV:
        if isinstance(d, ast.Constant):
            return self.ev_Constant(d, None)[0].val
        if isinstance(d, ast.Tuple) and not d.elts:
            return SV(con("empty-tuple"), Ty("emptytuple"))
        if isinstance(d, ast.Name):
            return SV(con("default:" + d.id), TCON)
        if isinstance(d, ast.Constant) is False and isinstance(d, ast.Attribute):
            return SV(con("default:" + ast.unparse(d)), TCON)
        raise Untranslatable(f"non-constant default {ast.unparse(d)}")

    def call_spec(self, st: State, qual: str, pos, kw, anchor, awaited=False, env=None, packs=()) -> list[Res]:
        from .specs import Frame
        spec = self.reg.specs[qual]
        fi = self.world.funcs.get(qual)
        if fi is not None:
            if fi.is_async and not awaited and not spec.returns_coroutine_ok:
                raise Untranslatable(f"coroutine function {qual} called without await")
            args = self.bind_params(fi, spec, pos, kw, st=st)
        else:
            args = spec.bind(pos, kw)
        for n, v in list(args.items()):
            pty = spec.param_types.get(n)
            if pty is not None and strip_opt(pty).kind == "tuple" and strip_opt(v.ty).kind == "list" and getattr(spec, "sequence_params", False):
                # a read-only Sequence parameter verified for tuples: a list argument is seen as the tuple of its current items
                # (the contract declares that the callee only iterates it, in one atomic segment)
                a_ = Val.a(v.t)
                items_, ln_ = z3.Select(st.heap["l_item"], a_), st.l_len(a_)
                ta_ = st.new_tuple(items_, ln_)
                from .comps import is_seq as _is_seq
                st.assume(ln_ >= 0, _is_seq(items_, ln_))
                args[n] = SV(vref(ta_), strip_opt(pty), (items_, ln_))
                st.uses.add("A-SEQ")
        if env is not None:
            args["__env__"] = env
        for n, v in args.items():
            self.escape(st, v)
        if spec.assumed:
            st.uses.add(spec.assumed)
        st.trace.append(("spec_call", qual, dict(args), HeapView(dict(st.heap))))
        if self.spec is not None and hasattr(self.spec, "on_spec_call"):
            self.spec.on_spec_call(self, st, qual, args, anchor)
        F0 = Frame(self, st, st, args)
        if getattr(spec, "soft_requires", None):
            # argument typing the caller cannot establish: when it fails the callee raises before touching anything that existed
            # (assumed, id in spec.soft_requires); the contract applies on the other branch
            pre = z3.And(*[f for (_, f) in spec.requires(F0)])
            s_bad = st.fork(z3.Not(pre), f"{anchor}-bad-arguments")
            outs = []
            if self.feasible(s_bad) and self.feasible_full(s_bad):
                s_bad.uses.add(spec.soft_requires)
                e = self.unknown_exception(s_bad)
                s_bad.assume(subcls(s_bad.fld("__class__", Val.a(e.t)), con("Exception")))
                s_bad.trace.append(("spec_raise", qual, dict(args), e))
                outs.append(Res(s_bad, None, e))
            st = st.fork(pre)
            if not self.feasible(st):
                return outs
            return outs + self._call_spec_checked(st, spec, qual, args, anchor)
        for (name, f) in spec.requires(F0):
            self.oblige(st, "pre", f"{qual.split('.', 1)[-1]}.{name}", f, anchor)
            st.assume(f)        # assert-then-assume: the obligation above must be discharged for the run to pass
        return self._call_spec_checked(st, spec, qual, args, anchor)

    def _call_spec_checked(self, st, spec, qual, args, anchor):
        out = self._call_spec_checked0(st, spec, qual, args, anchor)
        if self.spec is not None and hasattr(self.spec, "after_spec_call"):
            for r in out:
                r.st.ghost = dict(r.st.ghost)
                self.spec.after_spec_call(self, r.st, qual, args, r.val, r.exc, anchor)
            out = [r for r in out if self.feasible(r.st)]
        return out

    def _call_spec_checked0(self, st, spec, qual, args, anchor):
        from .specs import Frame
        F0 = Frame(self, st, st, args)
        pw = spec.pure_when(F0)
        if pw is not None and not getattr(self, "_in_pure_split", False):
            # the call has no effect at all when `pw` holds: split, so that callers keep the whole heap on that branch
            out = []
            self._in_pure_split = True
            try:
                s_pure = st.fork(pw)
                if self.feasible(s_pure):
                    out.extend(self.call_spec_effect(s_pure, spec, qual, args, anchor, pure=True))
                s_eff = st.fork(z3.Not(pw))
                if self.feasible(s_eff):
                    out.extend(self.call_spec_effect(s_eff, spec, qual, args, anchor, pure=False))
            finally:
                self._in_pure_split = False
            return out
        return self.call_spec_effect(st, spec, qual, args, anchor, pure=False)

    def call_spec_effect(self, st: State, spec, qual, args, anchor, pure) -> list[Res]:
        from .specs import Frame
        if spec.suspends and not pure:
            self.segment_end(st, anchor)
            st.trace.append(("suspend", anchor))
        elif (not pure and self.spec is not None and getattr(self.spec, "frame_rule", False) and self.spec.check_guarantee
              and not spec.assumed and spec.check_guarantee):
            self.close_segment(st, anchor)
        s2 = st.copy()
        old_alloc = st.heap["alloc"]
        if pure:
            s2.heap["alloc"] = fresh("cs.alloc", I)
            s2.assume(s2.heap["alloc"] >= old_alloc)
        elif spec.suspends or spec.modifies == "rely":
            s2 = self.havoc(st, anchor, callee=spec)
            if spec.suspends:
                s2.suspended = z3.BoolVal(True)
        else:
            for c in set(spec.modifies) | {"alloc"}:
                s2.heap[c] = fresh("cs." + c, self.comps[c])
            s2.assume(s2.heap["alloc"] >= old_alloc)
            if not spec.assumed:
                old, new = HeapView(st.heap), HeapView(s2.heap)
                wanted = set(getattr(self.spec, "uses_invariants", ()) or ())
                for entry in self.reg.guarantees:
                    if len(entry) > 3 and entry[3].get("lazy") and entry[0] not in wanted:
                        continue
                    # the callee's own segments keep the guarantee; rarely needed by the caller: second-stage hypothesis
                    s2.heavy.append(entry[1](old, new))
                clean = all(st.heap[c] is st.seg.get(c) or st.heap[c].eq(st.seg[c]) for c in self.comps if c not in ("alloc", "w_dict", "mycalls"))
                import os
                if os.environ.get("PYVC_DEBUG_CLEAN"):
                    print("CLEAN?", qual, clean, [c for c in self.comps if not (st.heap[c] is st.seg.get(c) or st.heap[c].eq(st.seg[c]))])
                if clean and spec.check_guarantee and self.spec is not None and self.spec.check_guarantee:
                    # the caller's atomic segment has written nothing so far: what the callee did is exactly what the callee's own
                    # verification covers (its guarantee and class-invariant obligations at its exit), so the caller's segment
                    # restarts at the callee's post-state with the class invariants as established by the callee
                    s2.seg = dict(s2.heap)
                    mod = set(spec.modifies)
                    for entry in self.reg.invariants:
                        fp = entry[2] if len(entry) > 2 else None
                        if fp is None or (set(fp) & mod):
                            self.assume_invariant(s2, entry, new)
        out = []
        ok = s2.copy()
        if qual == "_event.Signal.dispatch":
            ok.ghost["n_dispatch"] = ok.ghost.get("n_dispatch", 0) + 1
        rt = fresh("res")
        res = self.typed(ok, rt, spec.ret_type)
        F = Frame(self, st, ok, args, result=res)
        F.ghost = spec.fresh_ghost_outputs(self, ok)
        heavy_names = getattr(spec, "heavy_ensures", ())
        for (name, f) in list(spec.ensures(F)) + list(spec.call_site_extra(F)):
            if name in heavy_names:
                ok.heavy.append(f)       # rarely needed by callers: second-stage hypothesis
            else:
                ok.assume(f)
        if spec.result_owned:
            ra = Val.a(rt)
            ok.owned.append(ra)
            ok.loopvars = dict(ok.loopvars)
            ok.loopvars["owned_kind"] = dict(ok.loopvars.get("owned_kind", {}))
            ok.loopvars["owned_kind"][ra.get_id()] = spec.result_owned
        if self.feasible(ok):
            ok.trace.append(("spec_ret", qual, dict(args), res))
            out.append(Res(ok, res))
        if spec.may_raise:
            bad = s2.copy()
            bad.tags.append(f"{anchor}-raises")
            e = self.unknown_exception(bad)
            F = Frame(self, st, bad, args, exc=e)
            F.ghost = spec.fresh_ghost_outputs(self, bad)
            for (name, f) in spec.raises(F):
                bad.assume(f)
            if self.feasible(bad):
                bad.trace.append(("spec_raise", qual, dict(args), e))
                out.append(Res(bad, None, e))
        return out

    # ------------------------------------------------------------------ context managers
    def cm_enter(self, st: State, cm: SV, is_async: bool, item) -> list[Res]:
        k = strip_opt(cm.ty)
        if k.kind == "lib" and k.name in self.reg.lib_cms:
            return self.reg.lib_cms[k.name][0](self, st, cm, is_async, item)
        if k.kind == "inst":
            fi = self.world.find_method(k.name, "__aenter__" if is_async else "__enter__")
            if fi is not None and fi.qual in self.reg.specs:
                return self.call_spec(st, fi.qual, [cm], {}, f"with:{k.name}.enter#{self._ord('with-enter')}", awaited=True)
        raise Untranslatable(f"with-statement over {cm.ty} has no contract")

    def _ord(self, label):
        n = self.call_ord.get(label, 0)
        self.call_ord[label] = n + 1
        return n

    def cm_exit(self, o: Outcome, cm: SV, is_async: bool, item) -> list[Outcome]:
        k = strip_opt(cm.ty)
        if k.kind == "lib" and k.name in self.reg.lib_cms:
            return self.reg.lib_cms[k.name][1](self, o, cm, is_async, item)
        if k.kind == "inst":
            fi = self.world.find_method(k.name, "__aexit__" if is_async else "__exit__")
            if fi is not None and fi.qual in self.reg.specs:
                st = o.st
                if o.kind == "raise":
                    ev = o.val
                    et = SV(st.fld("__class__", Val.a(ev.t)), ANY)
                else:
                    ev, et = NONE_SV, NONE_SV
                out = []
                for r in self.call_spec(st, fi.qual, [cm, et, ev, NONE_SV], {}, f"with:{k.name}.exit#{self._ord('with-exit')}", awaited=True):
                    if r.exc is not None:
                        out.append(Outcome("raise", r.st, r.exc))
                    elif o.kind == "raise":
                        sup = self.truth(r.st, r.val)
                        s1, s2 = r.st.fork(sup, "suppressed"), r.st.fork(z3.Not(sup))
                        if self.feasible(s1):
                            out.append(Outcome("normal", s1))
                        if self.feasible(s2):
                            out.append(Outcome("raise", s2, o.val))
                    else:
                        out.append(Outcome(o.kind, r.st, o.val))
                return out
        raise Untranslatable(f"with-statement over {cm.ty} has no contract")

    def inline_closure(self, st: State, fi, pos, kw) -> list[Res]:
        raise Untranslatable(f"closure {fi.qual} has no contract (inlining not enabled)")

    # ------------------------------------------------------------------ constructors
    def construct(self, st: State, cls: str, pos, kw, node) -> list[Res]:
        if self.world.is_exception_class(cls) or cls in EXC_BASES:
            return [Res(st, self.new_exception(st, cls, pos))]
        ci = self.world.classes.get(cls)
        if ci is None:
            raise Untranslatable(f"constructor of unknown class {cls}")
        init = self.world.find_method(cls, "__init__")
        if init is not None and init.qual in self.reg.specs:
            a = st.new_ref(owned=False)
            st.set_fld("__class__", a, con(cls))
            obj = SV(vref(a), INST(cls))
            st.trace.append(("new", cls, a))
            out = []
            for r in self.call_spec(st, init.qual, [obj] + pos, kw, self.anchor_for(node)):
                out.append(Res(r.st, obj) if r.exc is None else r)
            return out
        fields = self.world.dataclass_fields(cls)
        if fields and init is None:
            return self.construct_dataclass(st, cls, fields, pos, kw)
        raise Untranslatable(f"constructor of {cls} has no contract")

    def construct_dataclass(self, st: State, cls, fields, pos, kw) -> list[Res]:
        a = st.new_ref(owned=False)
        st.set_fld("__class__", a, con(cls))
        pi = 0
        for (name, default, opts) in fields:
            init = True
            if "init" in opts and isinstance(opts["init"], ast.Constant):
                init = bool(opts["init"].value)
            v = None
            if init:
                if name in kw:
                    v = kw[name]
                elif pi < len(pos):
                    v = pos[pi]
                    pi += 1
            if v is None:
                if default is not None:
                    v = self.const_default(default)
                elif "default_factory" in opts:
                    v = self.reg.default_factory(self, st, opts["default_factory"])
                elif init:
                    raise Untranslatable(f"missing constructor argument {cls}.{name}")
            if v is not None:
                st.set_fld(name, a, v.t)
                if name in self.reg.unset_fields:
                    st.heap["set:" + name] = z3.Store(st.heap["set:" + name], a, True)
                self.escape(st, v)
            elif name in self.reg.unset_fields:
                st.heap["set:" + name] = z3.Store(st.heap["set:" + name], a, False)
        st.trace.append(("new", cls, a))
        return [Res(st, SV(vref(a), INST(cls)))]
