"""pyvc engine part 2: statements, loops (cut at invariants), try/except/finally, with."""
from __future__ import annotations

import ast
import z3
from .smt import *
from .state import *


class StmtMixin:
    # ------------------------------------------------------------------ blocks
    def exec_block(self, stmts, st: State) -> list[Outcome]:
        cur = [Outcome("normal", st)]
        for s in stmts:
            nxt = []
            for o in cur:
                if o.kind != "normal":
                    nxt.append(o)
                    continue
                nxt.extend(self.exec_stmt(s, o.st))
            cur = nxt
            if not any(o.kind == "normal" for o in cur):
                break
        return cur

    def exec_stmt(self, s: ast.stmt, st: State) -> list[Outcome]:
        self.nodes_translated += 1
        m = getattr(self, "st_" + type(s).__name__, None)
        if m is None:
            raise Untranslatable(f"statement {type(s).__name__} at line {s.lineno}")
        return m(s, st)

    def _raise_outs(self, results):
        return [Outcome("raise", r.st, r.exc) for r in results if r.exc is not None]

    # ------------------------------------------------------------------ simple statements
    def st_Pass(self, s, st):
        return [Outcome("normal", st)]

    def st_Expr(self, s, st):
        if isinstance(s.value, ast.Constant):      # docstring
            self.drop("docstring")
            return [Outcome("normal", st)]
        out = []
        for r in self.eval(s.value, st):
            out.append(Outcome("raise", r.st, r.exc) if r.exc is not None else Outcome("normal", r.st))
        return out

    def st_Import(self, s, st):
        return [Outcome("normal", st)]

    def st_ImportFrom(self, s, st):
        # function-local import: binding only (names resolved through the module import table)
        for a in s.names:
            tgt = f"{s.module}.{a.name}" if s.level == 1 else f"ext:{s.module}.{a.name}"
            self.world.imports[self.module].setdefault(a.asname or a.name, tgt)
        return [Outcome("normal", st)]

    def st_Nonlocal(self, s, st):
        return [Outcome("normal", st)]

    def st_Global(self, s, st):
        raise Untranslatable("global statement")

    def st_Assert(self, s, st):
        out = []
        for r in self.eval(s.test, st):
            if r.exc is not None:
                out.append(Outcome("raise", r.st, r.exc))
                continue
            tr = self.truth(r.st, r.val)
            ok = r.st.fork(tr)
            bad = r.st.fork(z3.Not(tr), "assert-fails")
            if self.feasible(ok):
                out.append(Outcome("normal", ok))
            if self.feasible(bad):
                out.append(Outcome("raise", bad, self.new_exception(bad, "AssertionError", [])))
        return out

    def st_Delete(self, s, st):
        for t in s.targets:
            if isinstance(t, ast.Name):
                if t.id in getattr(self, "my_nonlocals", ()):
                    self.assign_name(st, t.id, SV(con("unbound"), TCON))
                st.env.pop(t.id, None)
            else:
                raise Untranslatable("del of non-name")
        return [Outcome("normal", st)]

    def st_Return(self, s, st):
        if s.value is None:
            return [Outcome("return", st, NONE_SV)]
        out = []
        for r in self.eval(s.value, st):
            out.append(Outcome("raise", r.st, r.exc) if r.exc is not None else Outcome("return", r.st, r.val))
        return out

    def st_Break(self, s, st):
        return [Outcome("break", st)]

    def st_Continue(self, s, st):
        return [Outcome("continue", st)]

    def st_Assign(self, s, st):
        out = []
        for r in self.eval(s.value, st):
            if r.exc is not None:
                out.append(Outcome("raise", r.st, r.exc))
                continue
            cur = [Outcome("normal", r.st)]
            for tgt in s.targets:
                nxt = []
                for o in cur:
                    nxt.extend(self.assign(tgt, r.val, o.st) if o.kind == "normal" else [o])
                cur = nxt
            out.extend(cur)
        return out

    def st_AnnAssign(self, s, st):
        self.drop("annotation")
        if s.value is None:
            return [Outcome("normal", st)]
        out = []
        for r in self.eval(s.value, st):
            if r.exc is not None:
                out.append(Outcome("raise", r.st, r.exc))
            else:
                out.extend(self.assign(s.target, r.val, r.st))
        return out

    def st_AugAssign(self, s, st):
        raise Untranslatable("augmented assignment")

    def assign(self, tgt, v: SV, st: State) -> list[Outcome]:
        if isinstance(tgt, ast.Name):
            self.assign_name(st, tgt.id, v)
            return [Outcome("normal", st)]
        if isinstance(tgt, ast.Tuple) and strip_opt(v.ty).kind == "list":
            # unpacking a list: exactly len(targets) items, else ValueError
            a = Val.a(v.t)
            n = len(tgt.elts)
            ok, bad = st.fork(st.l_len(a) == n), st.fork(st.l_len(a) != n, "unpack-length")
            out = []
            if self.feasible(bad):
                r = self.raise_new(bad, "ValueError")
                out.append(Outcome("raise", r.st, r.exc))
            if self.feasible(ok):
                ety = strip_opt(v.ty).args[0] if strip_opt(v.ty).args else ANY
                cur = [Outcome("normal", ok)]
                for i, t in enumerate(tgt.elts):
                    nxt = []
                    for o in cur:
                        nxt.extend(self.assign(t, self.typed(o.st, o.st.l_item(a, z3.IntVal(i)), ety), o.st) if o.kind == "normal" else [o])
                    cur = nxt
                out.extend(cur)
            return out
        if isinstance(tgt, ast.Tuple):
            parts = self.unpack(st, v, len(tgt.elts))
            cur = [Outcome("normal", st)]
            for t, p in zip(tgt.elts, parts):
                nxt = []
                for o in cur:
                    nxt.extend(self.assign(t, p, o.st) if o.kind == "normal" else [o])
                cur = nxt
            return cur
        if isinstance(tgt, ast.Attribute):
            out = []
            for r in self.eval(tgt.value, st):
                if r.exc is not None:
                    out.append(Outcome("raise", r.st, r.exc))
                    continue
                out.extend(self.set_attr(r.st, r.val, tgt.attr, v, tgt))
            return out
        if isinstance(tgt, ast.Subscript):
            out = []
            for (s2, vals, exc) in self.eval_many([tgt.value, tgt.slice], st):
                if exc is not None:
                    out.append(Outcome("raise", s2, exc))
                    continue
                out.extend(self.set_item(s2, vals[0], vals[1], v, tgt))
            return out
        raise Untranslatable(f"assignment target {type(tgt).__name__}")

    def unpack(self, st: State, v: SV, n: int) -> list[SV]:
        if n == 2:
            if v.ty.kind == "pair":
                return [SV(Val.fst(v.t), v.ty.args[0]), SV(Val.snd(v.t), v.ty.args[1])]
            if v.ty.kind == "any":
                # elements of containers typed ANY that are unpacked as pairs: must be declared in the schema
                raise Untranslatable("unpacking a value of unknown type")
        raise Untranslatable(f"unpacking {v.ty} into {n}")

    # ------------------------------------------------------------------ if / raise
    def st_If(self, s, st):
        out = []
        for r in self.eval(s.test, st):
            if r.exc is not None:
                out.append(Outcome("raise", r.st, r.exc))
                continue
            tr = self.truth(r.st, r.val)
            base = r.st
            s1 = base.fork(tr)
            s2 = base.fork(z3.Not(tr))
            self.narrow_isinstance(s.test, s1, s2)
            o1 = self.exec_block(s.body, s1) if self.feasible(s1) else []
            o2 = (self.exec_block(s.orelse, s2) if s.orelse else [Outcome("normal", s2)]) if self.feasible(s2) else []
            n1 = [o for o in o1 if o.kind == "normal"]
            n2 = [o for o in o2 if o.kind == "normal"]
            merged = None
            if len(n1) == 1 and len(n2) == 1:
                merged = self.merge_states(base, n1[0].st, n2[0].st)
            if merged is not None:
                out.extend(o for o in o1 + o2 if o.kind != "normal")
                out.append(Outcome("normal", merged))
            else:
                out.extend(o1 + o2)
        return out

    def narrow_isinstance(self, test, s_true: State, s_false: State):
        """`isinstance(<local name>, dict)` / its negation as an if-test: the branch where it holds sees the name as a dict"""
        neg = False
        while isinstance(test, ast.UnaryOp) and isinstance(test.op, ast.Not):
            test, neg = test.operand, not neg
        if not (isinstance(test, ast.Call) and isinstance(test.func, ast.Name) and test.func.id == "isinstance" and len(test.args) == 2
                and isinstance(test.args[0], ast.Name) and isinstance(test.args[1], ast.Name) and test.args[1].id == "dict"):
            return
        tgt = s_false if neg else s_true
        n = test.args[0].id
        if n in tgt.env and tgt.env[n].ty.kind == "any":
            tgt.env = dict(tgt.env)
            tgt.env[n] = SV(tgt.env[n].t, DICT())

    def merge_states(self, base: State, a: State, b: State):
        """join two normal continuations of a branch into one state (selector boolean); None if not mergeable"""
        nb = len(base.pc)
        if a.pc[:nb] != base.pc or b.pc[:nb] != base.pc:
            if not all(x.eq(y) for x, y in zip(a.pc[:nb], base.pc)) or not all(x.eq(y) for x, y in zip(b.pc[:nb], base.pc)):
                return None
        if set(a.env) != set(b.env) and False:
            return None
        if len(a.trace) != len(b.trace) or any(x is not y for x, y in zip(a.trace, b.trace)):
            if a.trace != b.trace:
                return None
        if a.exc_reg.t is not b.exc_reg.t and not a.exc_reg.t.eq(b.exc_reg.t):
            return None
        if a.seg is not b.seg or a.tags[:len(base.tags)] != base.tags:
            return None
        m = base.copy()
        sel = fresh("br", B)
        ea, eb = a.pc[nb:], b.pc[nb:]
        if ea:
            m.pc.append(z3.Implies(sel, z3.And(*ea)))
        if eb:
            m.pc.append(z3.Implies(z3.Not(sel), z3.And(*eb)))
        env = {}
        for n in set(a.env) & set(b.env):
            va, vb = a.env[n], b.env[n]
            if va.t.eq(vb.t):
                env[n] = va if va.ty == vb.ty else SV(va.t, ANY)
            else:
                ty = va.ty if va.ty == vb.ty else (OPT(va.ty) if vb.ty.kind == "none" and va.ty.kind not in ("any", "none", "opt")
                                                   else (OPT(vb.ty) if va.ty.kind == "none" and vb.ty.kind not in ("any", "none", "opt") else ANY))
                if ty == ANY and (va.ty.kind in ("dict", "list", "set", "tuple", "inst", "lib", "pair") or vb.ty.kind in ("dict", "list", "set", "tuple", "inst", "lib", "pair")) and va.ty != vb.ty:
                    return None     # would lose a structural type: keep the paths apart
                mv = fresh("mg_" + n)
                m.pc.append(z3.Implies(sel, mv == va.t))
                m.pc.append(z3.Implies(z3.Not(sel), mv == vb.t))
                env[n] = SV(mv, ty)
        # names defined on one side only stay out of the merged environment (use would be an UnboundLocalError on the other path)
        m.env = env
        for c in m.heap:
            ha, hb = a.heap[c], b.heap[c]
            if ha.eq(hb):
                m.heap[c] = ha
            else:
                hm = fresh("mg." + c, ha.sort())
                m.pc.append(z3.Implies(sel, hm == ha))
                m.pc.append(z3.Implies(z3.Not(sel), hm == hb))
                m.heap[c] = hm
        ida = {x.get_id() for x in a.owned}
        m.owned = [x for x in b.owned if x.get_id() in ida]
        m.uses = a.uses | b.uses
        hid = {f.get_id() for f in a.heavy}
        m.heavy = list(a.heavy) + [f for f in b.heavy if f.get_id() not in hid]
        ids = {f.get_id() for (_, f) in a.lazy}
        m.lazy = list(a.lazy) + [(n, f) for (n, f) in b.lazy if f.get_id() not in ids]
        for k in set(a.ghost) | set(b.ghost):
            va_, vb_ = a.ghost.get(k), b.ghost.get(k)
            if isinstance(va_, int) or isinstance(vb_, int):
                if va_ != vb_:
                    return None
        m.ghost = dict(a.ghost)
        for k, v in b.ghost.items():
            if k in m.ghost and z3.is_expr(v) and z3.is_expr(m.ghost[k]) and not v.eq(m.ghost[k]):
                m.ghost[k] = z3.If(sel, m.ghost[k], v)
            elif k not in m.ghost:
                m.ghost[k] = v
        m.defs = list(a.defs) + [d for d in b.defs if d.get_id() not in {x.get_id() for x in a.defs}]
        m.suspended = a.suspended if a.suspended.eq(b.suspended) else z3.If(sel, a.suspended, b.suspended)
        return m

    def st_Raise(self, s, st):
        if s.exc is None:
            if st.exc_reg.ty.kind == "none":
                raise Untranslatable("bare raise outside handler")
            return [Outcome("raise", st, st.exc_reg)]
        out = []
        exprs = [s.exc] + ([s.cause] if s.cause is not None else [])
        for (s2, vals, exc) in self.eval_many(exprs, st):
            if exc is not None:
                out.append(Outcome("raise", s2, exc))
                continue
            ev = vals[0]
            if ev.ty.kind == "class":           # raise Cls  -> instantiate
                ev = self.new_exception(s2, ev.ty.name, [])
            elif ev.ty.kind not in ("exc",) and not (ev.ty.kind == "any"):
                raise Untranslatable(f"raise of {ev.ty}")
            if s.cause is not None:
                s2.set_fld("__cause__", Val.a(ev.t), vals[1].t)
                s2.trace.append(("raise_from", ev, vals[1]))
            out.append(Outcome("raise", s2, SV(ev.t, TEXC)))
        return out

    # ------------------------------------------------------------------ try
    def st_Try(self, s, st):
        res: list[Outcome] = []
        for o in self.exec_block(s.body, st):
            if o.kind == "raise" and s.handlers:
                res.extend(self.run_handlers(s.handlers, o))
            elif o.kind == "normal" and s.orelse:
                res.extend(self.exec_block(s.orelse, o.st))
            else:
                res.append(o)
        if s.finalbody:
            final = []
            for o in res:
                for f in self.exec_block(s.finalbody, o.st):
                    final.append(Outcome(o.kind, f.st, o.val) if f.kind == "normal" else f)
            res = final
        return res

    def exc_class(self, st: State, e: SV):
        return st.fld("__class__", Val.a(e.t))

    def handler_matches(self, st: State, e: SV, typ: ast.expr | None):
        if typ is None:
            return z3.BoolVal(True)
        if isinstance(typ, ast.Tuple):
            return z3.Or(*[self.handler_matches(st, e, t) for t in typ.elts])
        if isinstance(typ, ast.Call):
            # get_cancelled_exc_class()
            if isinstance(typ.func, ast.Name) and typ.func.id == "get_cancelled_exc_class":
                return subcls(self.exc_class(st, e), con("Cancelled"))
            raise Untranslatable("except <call>")
        name = typ.id if isinstance(typ, ast.Name) else typ.attr
        return subcls(self.exc_class(st, e), con(name))

    def run_handlers(self, handlers, o: Outcome) -> list[Outcome]:
        out = []
        st = o.st
        e = o.val
        remaining = st
        for h in handlers:
            m = self.handler_matches(remaining, e, h.type)
            hit = remaining.fork(m, f"except-{ast.unparse(h.type) if h.type is not None else 'all'}")
            miss = remaining.fork(z3.Not(m))
            if self.feasible(hit):
                saved = hit.exc_reg
                hit.exc_reg = SV(e.t, TEXC)
                if h.name:
                    self.assign_name(hit, h.name, SV(e.t, TEXC))
                for ho in self.exec_block(h.body, hit):
                    ho.st.exc_reg = saved
                    if h.name:
                        ho.st.env.pop(h.name, None)
                    out.append(ho)
            remaining = miss
            if not self.feasible(remaining):
                remaining = None
                break
        if remaining is not None:
            out.append(Outcome("raise", remaining, e))
        return out

    # ------------------------------------------------------------------ loops
    def next_loop(self, node=None):
        """loop ordinal = position in source order within the function (stable across paths)"""
        if not hasattr(self, "_loop_index"):
            loops = [n for n in self.world._own_nodes(self.fi.node) if isinstance(n, (ast.For, ast.AsyncFor, ast.While))]
            loops.sort(key=lambda n: (n.lineno, n.col_offset))
            self._loop_index = {id(n): i for i, n in enumerate(loops)}
        return self._loop_index[id(node)]

    def loop_invariant(self, k):
        inv = self.spec.loops.get(k) if self.spec else None
        if inv is None:
            raise Untranslatable(f"loop #{k} has no invariant bound in the contract")
        return inv

    def assigned_names(self, stmts) -> set[str]:
        names = set()
        for s in stmts:
            for n in ast.walk(s):
                if isinstance(n, ast.Name) and isinstance(n.ctx, (ast.Store, ast.Del)):
                    names.add(n.id)
                elif isinstance(n, ast.ExceptHandler) and n.name:
                    names.add(n.name)
        return names

    def havoc_loop_state(self, st: State, body, extra_names=(), prelude=None) -> State:
        """Cut point: forget everything the body may change.  The set of heap components the body writes is
        found by a dry run of the body from a fully havocked state (components whose term is untouched on
        every path are not written).  The open atomic segment is carried across the cut: components it has
        not written keep `seg == heap`; for the others the guarantee clauses are proved at loop entry / at the
        end of every iteration (see check_open_segment) and assumed at the loop head."""
        comps, open_changed = self.written_comps(st, body, extra_names, prelude)
        for c in self.comps:
            if not (st.heap[c] is st.seg.get(c) or st.heap[c].eq(st.seg[c])):
                open_changed.add(c)
        h = st.copy()
        for n in self.assigned_names(body) | set(extra_names):
            if n in h.env:
                ty = h.env[n].ty
                h.env[n] = self.typed(h, fresh("lv_" + n), ty)
        old_alloc = h.heap["alloc"]
        for c in comps:
            h.heap[c] = fresh("lh." + c, self.comps[c])
        if "alloc" in comps:
            h.assume(h.heap["alloc"] >= old_alloc)
        for n in self.assigned_names(body):
            if n in self.cellvars and n in h.env and "fld:cell:" + n not in comps:
                h.set_fld("cell:" + n, h.envref, h.env[n].t)
        if self.spec is not None and hasattr(self.spec, "havoc_ghost"):
            h.ghost = dict(h.ghost)
            self.spec.havoc_ghost(self, h)
        # components that verified code writes only when it allocates an object (class tag, ownership tag, tuple contents):
        # everything that existed at loop entry is untouched
        x_ = z3.Const("x!ao", I)
        for c in ("g:owner", "fld:__class__", "fld:__cause__", "t_len", "t_item"):
            if c in comps and c in h.heap and not getattr(self, "_last_dry_had_havoc", False):
                h.assume(z3.ForAll([x_], z3.Implies(z3.And(0 <= x_, x_ < old_alloc), z3.Select(h.heap[c], x_) == z3.Select(st.heap[c], x_)),
                                   patterns=[z3.Select(h.heap[c], x_)]))
        if self.spec is not None and self.spec.check_guarantee and getattr(self.spec, "frame_rule", False):
            # frame_rule contracts close the atomic segment at every cut point (loop entry, end of every iteration): the loop head is
            # a segment start where the class invariants hold
            h.loopvars = dict(h.loopvars)
            h.loopvars["open_changed"] = set()
            h.loopvars["body_has_havoc"] = bool(getattr(self, "_last_dry_had_havoc", False))
            for entry in self.reg.invariants:
                self.assume_invariant(h, entry, HeapView(h.heap))
            self.assume_immutables(h, st, h.heap)
            h.seg = dict(h.heap)
            return h
        if self.spec is not None and self.spec.check_guarantee:
            open_changed -= {"w_dict", "mycalls"}
            h.loopvars = dict(h.loopvars)
            h.loopvars["open_changed"] = set(open_changed)
            h.loopvars["body_has_havoc"] = bool(getattr(self, "_last_dry_had_havoc", False))
            if h.loopvars["body_has_havoc"]:
                # the body lets foreign code run: the heap at the loop head is unknown except for the contract's loop
                # invariant and the class invariants (proved at loop entry and at the end of every iteration)
                for entry in self.reg.invariants:
                    self.assume_invariant(h, entry, HeapView(h.heap))
                # construction-time fields are immutable across everything that happened since loop entry
                self.assume_immutables(h, st, h.heap)
                old_, new_ = HeapView(st.heap), HeapView(h.heap)
                for entry in self.reg.rely_clauses(self):
                    if entry[0].startswith(("immutable:", "set-monotone:")):
                        h.heavy.append(entry[1](old_, new_))
            if not h.loopvars["body_has_havoc"]:
                # no foreign code runs inside the loop: the open segment simply continues (its start is unchanged)
                open_changed = set()
                h.loopvars["open_changed"] = set()
                h.seg = st.seg
            else:
                seg = {}
                for c in self.comps:
                    seg[c] = fresh("sg." + c, self.comps[c]) if c in open_changed else h.heap[c]
                h.seg = seg
            if open_changed:
                old, new = HeapView(h.seg), HeapView(h.heap)
                wanted = set(getattr(self.spec, "uses_invariants", ()) or ())
                for entry in self.reg.guarantees:
                    fp = entry[2] if len(entry) > 2 else None
                    if len(entry) > 3 and entry[3].get("lazy") and entry[0] not in wanted:
                        continue
                    if fp is None or (set(fp) & open_changed):
                        h.assume(entry[1](old, new))
                h.assume(new.alloc >= old.alloc)
        return h

    def check_open_segment(self, st: State, open_changed, anchor, kind, body_has_havoc=False):
        """the part of the current atomic segment executed so far is within the guarantee (loop cut)"""
        if self.spec is None or not self.spec.check_guarantee:
            return
        if getattr(self.spec, "frame_rule", False):
            self.close_segment(st, f"{anchor}:{kind}")
            return
        if body_has_havoc:
            changed_ = {c for c in self.comps if not (st.heap[c] is st.seg.get(c) or st.heap[c].eq(st.seg[c]))}
            if changed_:
                st.name_heap()
                new_ = HeapView(st.heap)
                for entry in self.reg.invariants:
                    fp = entry[2] if len(entry) > 2 else None
                    if entry[0] in self.spec.suspended_invariants or (fp is not None and not (set(fp) & changed_)):
                        continue
                    self.oblige(st, kind, "class-invariant:" + entry[0], entry[1](new_), anchor)
        if not open_changed:
            return
        changed = {c for c in self.comps if not (st.heap[c] is st.seg.get(c) or st.heap[c].eq(st.seg[c]))} - {"w_dict", "mycalls"}
        if not changed:
            return
        extra = changed - set(open_changed)
        if extra and not getattr(self, "_dry", 0):
            raise Untranslatable(f"loop cut: open segment writes {sorted(extra)[:4]} not seen by the dry run")
        st.name_heap()
        old, new = HeapView(st.seg), HeapView(st.heap)
        for entry in self.reg.guarantees:
            fp = entry[2] if len(entry) > 2 else None
            if fp is None or (set(fp) & changed):
                self.oblige(st, kind, "open-segment:" + entry[0], entry[1](old, new), anchor)

    def written_comps(self, st: State, body, extra_names, prelude):
        saved = (len(self.obls), dict(self.call_ord), dict(self.dropped), self.nodes_translated, len(self.notes))
        probe = st.copy()
        for n in self.assigned_names(body) | set(extra_names):
            if n in probe.env:
                probe.env[n] = SV(fresh("dry_" + n), probe.env[n].ty)
        start = {}
        for c in self.comps:
            probe.heap[c] = start[c] = fresh("dry." + c, self.comps[c])
        probe.seg = dict(probe.heap)
        if self.spec is not None and hasattr(self.spec, "havoc_ghost"):
            probe.ghost = dict(probe.ghost)
            self.spec.havoc_ghost(self, probe)
        self._dry = getattr(self, "_dry", 0) + 1
        try:
            outs = prelude(probe) if prelude else [Outcome("normal", probe)]
            res = []
            for o in outs:
                res.extend(self.exec_block(body, o.st) if o.kind == "normal" else [o])
        finally:
            self._dry -= 1
            del self.obls[saved[0]:]
            self.call_ord = saved[1]
            self.dropped = saved[2]
            self.nodes_translated = saved[3]
            del self.notes[saved[4]:]
        comps = set()
        open_changed = set()
        self._last_dry_had_havoc = any(o.st.seg is not probe.seg for o in res)
        for o in res:
            if o.kind not in ("normal", "continue"):
                continue          # paths that leave the loop carry nothing into the next iteration
            for c in self.comps:
                if not o.st.heap[c].eq(start[c]):
                    comps.add(c)
                if not (o.st.heap[c] is o.st.seg.get(c) or o.st.heap[c].eq(o.st.seg[c])):
                    open_changed.add(c)
        return comps, open_changed

    PURE_CALLS = {"isinstance", "len", "cast", "callable", "isclass", "get_origin", "isawaitable", "iscoroutine",
                  "type", "id", "qualified_name", "callable_name", "format_component_name"}

    def modified_comps(self, body) -> set[str]:
        """Syntactic over-approximation of the heap components a loop body may write."""
        comps: set[str] = set()
        everything = False
        for s in body:
            for n in ast.walk(s):
                if isinstance(n, ast.Attribute) and isinstance(n.ctx, ast.Store):
                    comps.add("fld:" + n.attr)
                elif isinstance(n, ast.Subscript) and isinstance(n.ctx, (ast.Store, ast.Del)):
                    comps |= {"d_has", "d_get", "d_len", "l_item"}
                elif isinstance(n, (ast.Await, ast.AsyncWith, ast.AsyncFor, ast.With, ast.Yield)):
                    everything = True
                elif isinstance(n, (ast.Tuple, ast.List, ast.Dict, ast.ListComp, ast.DictComp, ast.JoinedStr)):
                    comps |= {"alloc", "t_len", "t_item", "l_len", "l_item", "d_has", "d_get", "d_len"}
                elif isinstance(n, ast.Call):
                    f = n.func
                    if isinstance(f, ast.Name) and f.id in self.PURE_CALLS:
                        continue
                    if isinstance(f, ast.Attribute) and isinstance(f.value, ast.Name) and f.value.id in ("logger",):
                        continue
                    m = self.static_modifies(n)
                    if m is None:
                        everything = True
                    else:
                        comps |= m
        if everything:
            return set(self.comps)
        if comps:
            comps.add("alloc")
        if "d_has" in comps:
            comps.add("w_dict")
        return comps

    def static_modifies(self, call: ast.Call):
        """modifies set of a call resolvable statically to a contracted function / container method; None = unknown"""
        f = call.func
        if isinstance(f, ast.Attribute):
            meth = f.attr
            table = {
                "get": set(), "items": set(), "values": set(), "keys": set(), "copy": {"alloc", "d_has", "d_get", "d_len", "l_len", "l_item", "s_has", "s_len"},
                "append": {"l_len", "l_item"}, "setdefault": {"d_has", "d_get", "d_len"},
                "add": {"s_has", "s_len"}, "discard": {"s_has", "s_len"},
                "startswith": set(), "split": {"alloc", "t_len", "t_item", "l_len", "l_item"}, "replace": set(),
            }
            if meth in table and meth not in self.reg.method_names_with_specs(self.world):
                return table[meth]
            return None
        if isinstance(f, ast.Name):
            r = self.world.resolve_global(self.module, f.id)
            if r and r[0] == "func":
                sp = self.reg.specs.get(r[1].qual)
                if sp is not None and sp.modifies != "rely":
                    return set(sp.modifies) | {"alloc"}
            if r and r[0] == "class":
                return {"alloc"} | {c for c in self.comps if c.startswith("fld:")}
            if f.id in ("dict", "list", "tuple", "set"):
                return {"alloc", "d_has", "d_get", "d_len", "l_len", "l_item", "t_len", "t_item", "s_has", "s_len"}
        return None

    def st_While(self, s, st):
        if s.orelse:
            raise Untranslatable("while-else")
        k = self.next_loop(s)
        inv = self.loop_invariant(k)
        anchor = f"loop{k}"
        entry = st
        for (name, f) in inv(self.loop_ctx(entry, entry, {})):
            self.oblige(entry, "inv-init", name, f, anchor)
        h = self.havoc_loop_state(entry, s.body)
        oc = h.loopvars.get("open_changed", set())
        self.check_open_segment(entry, oc, anchor, "inv-init", h.loopvars.get("body_has_havoc", False))
        h.tags.append(anchor)
        for (name, f) in inv(self.loop_ctx(entry, h, {})):
            h.assume(f)
        out = []
        for r in self.eval(s.test, h):
            if r.exc is not None:
                out.append(Outcome("raise", r.st, r.exc))
                continue
            tr = self.truth(r.st, r.val)
            s_body = r.st.fork(tr, "iter")
            s_exit = r.st.fork(z3.Not(tr), "exit")
            if self.feasible(s_body):
                for o in self.exec_block(s.body, s_body):
                    if o.kind in ("normal", "continue"):
                        for (name, f) in inv(self.loop_ctx(entry, o.st, {})):
                            self.oblige(o.st, "inv-keep", name, f, anchor)
                        self.check_open_segment(o.st, oc, anchor, "inv-keep", h.loopvars.get("body_has_havoc", False))
                    elif o.kind == "break":
                        out.append(Outcome("normal", o.st))
                    else:
                        out.append(o)
            if self.feasible(s_exit):
                self.loop_exit_lemmas(k, anchor, entry, s_exit, {})
                out.append(Outcome("normal", s_exit))
        return out

    def st_AsyncFor(self, s, st):
        """`async for x in it: body`  =  repeatedly `x = await it.__anext__()` (a suspension point: other tasks run, the shared state is
        havocked under the rely) until that raises StopAsyncIteration; any other exception propagates (language semantics)"""
        if s.orelse:
            raise Untranslatable("async for-else")
        k = self.next_loop(s)
        inv = self.loop_invariant(k)
        anchor = f"loop{k}"
        out = []
        for r0 in self.eval(s.iter, st):
            if r0.exc is not None:
                out.append(Outcome("raise", r0.st, r0.exc))
                continue
            entry, it = r0.st, r0.val
            for (name, f) in inv(self.loop_ctx(entry, entry, {"iter": it})):
                self.oblige(entry, "inv-init", name, f, anchor)

            def prelude(p, it=it):
                outs = []
                for r in self.suspend(p, it, "async-for-next"):
                    if r.exc is None:
                        outs.extend(self.assign(s.target, SV(r.val.t, ANY), r.st))
                return outs
            h = self.havoc_loop_state(entry, s.body, extra_names=self.target_names(s.target), prelude=prelude)
            oc = h.loopvars.get("open_changed", set())
            self.check_open_segment(entry, oc, anchor, "inv-init", True)
            h.tags.append(anchor)
            for (name, f) in inv(self.loop_ctx(entry, h, {"iter": it})):
                h.assume(f)
            for r in self.suspend(h, it, "async-for-next"):
                if r.exc is not None:
                    e = r.exc
                    stop = subcls(r.st.fld("__class__", Val.a(e.t)), con("StopAsyncIteration"))
                    s_exit, s_raise = r.st.fork(stop, "exit"), r.st.fork(z3.Not(stop), "next-raises")
                    if self.feasible(s_exit):
                        self.loop_exit_lemmas(k, anchor, entry, s_exit, {"iter": it})
                        out.append(Outcome("normal", s_exit))
                    if self.feasible(s_raise):
                        out.append(Outcome("raise", s_raise, e))
                    continue
                s_body = r.st
                s_body.tags.append("iter")
                for o0 in self.assign(s.target, SV(r.val.t, ANY), s_body):
                    if o0.kind != "normal":
                        out.append(o0)
                        continue
                    if self.spec is not None and hasattr(self.spec, "on_loop_body"):
                        o0.st.ghost = dict(o0.st.ghost)
                        self.spec.on_loop_body(self, o0.st, k, {"item": SV(r.val.t, ANY)})
                    for o in self.exec_block(s.body, o0.st):
                        if o.kind in ("normal", "continue"):
                            for (name, f) in inv(self.loop_ctx(entry, o.st, {"iter": it})):
                                self.oblige(o.st, "inv-keep", name, f, anchor)
                            self.check_open_segment(o.st, oc, anchor, "inv-keep", True)
                        elif o.kind == "break":
                            out.append(Outcome("normal", o.st))
                        else:
                            out.append(o)
        return out

    def loop_exit_lemmas(self, k, anchor, entry: State, s_exit: State, it: dict):
        """contract-supplied proof steps at a loop exit: each is proved (obligation) and then available"""
        fn = getattr(self.spec, "exit_lemmas", {}).get(k) if self.spec else None
        if fn is None:
            return
        for (name, f) in fn(self.loop_ctx(entry, s_exit, it)):
            self.oblige(s_exit, "lemma", name, f, anchor)
            s_exit.assume(f)

    def loop_ctx(self, entry: State, cur: State, it: dict):
        from .specs import LoopCtx
        return LoopCtx(self, entry, cur, it)

    def st_For(self, s, st):
        if s.orelse:
            raise Untranslatable("for-else")
        k = self.next_loop(s)
        anchor = f"loop{k}"
        out = []
        src_expr, mode = self.iter_source(s.iter)
        for r in self.eval(src_expr, st):
            if r.exc is not None:
                out.append(Outcome("raise", r.st, r.exc))
                continue
            out.extend(self.for_loop(s, k, anchor, r.st, r.val, mode))
        return out

    def iter_source(self, it: ast.expr):
        """-> (expression evaluating to the collection, mode)"""
        if isinstance(it, ast.Call) and isinstance(it.func, ast.Attribute) and it.func.attr in ("items", "values", "keys") and not it.args:
            return it.func.value, "dict_" + it.func.attr
        if isinstance(it, ast.Call) and isinstance(it.func, ast.Name) and it.func.id == "enumerate" and len(it.args) == 1:
            return it.args[0], "enumerate"
        return it, "seq"

    def for_loop(self, s, k, anchor, entry: State, src: SV, mode: str) -> list[Outcome]:
        inv = self.loop_invariant(k)
        kind = strip_opt(src.ty).kind
        if mode.startswith("dict_"):
            if kind not in ("dict", "any"):
                raise Untranslatable(f"iteration over {src.ty}")
            return self.for_dict(s, k, anchor, entry, src, mode, inv)
        if kind in ("list", "tuple"):
            return self.for_seq(s, k, anchor, entry, src, mode, inv)
        if kind == "dict":
            return self.for_dict(s, k, anchor, entry, src, "dict_keys", inv)
        raise Untranslatable(f"iteration over {src.ty}")

    def for_seq(self, s, k, anchor, entry, src, mode, inv):
        a = Val.a(src.t)
        is_list = strip_opt(src.ty).kind == "list"
        ety = strip_opt(src.ty).args[0]
        i0 = z3.IntVal(0)
        tup_aux = None
        if not is_list:
            # tuples are immutable: one ground name for the item array / length for the whole loop
            if src.aux is not None and z3.is_const(src.aux[0]) and src.aux[0].decl().kind() == z3.Z3_OP_UNINTERPRETED:
                tup_aux = src.aux
            elif src.aux is not None:
                it_c, ln_c = fresh("titems", IV), fresh("tlen", I)
                entry.assume(it_c == src.aux[0], ln_c == src.aux[1], it_c == z3.Select(entry.heap["t_item"], a), ln_c == entry.t_len(a))
                entry.defs.append(it_c == src.aux[0])
                entry.defs.append(ln_c == src.aux[1])
                tup_aux = (it_c, ln_c)
            else:
                # named once (plain constants): the item array / length appear in patterns of loop invariants, where merged (If) terms
                # are not allowed
                it_c, ln_c = fresh("titems", IV), fresh("tlen", I)
                entry.assume(it_c == z3.Select(entry.heap["t_item"], a), ln_c == entry.t_len(a))
                entry.defs.append(it_c == z3.Select(entry.heap["t_item"], a))
                entry.defs.append(ln_c == entry.t_len(a))
                tup_aux = (it_c, ln_c)
            src = SV(src.t, src.ty, tup_aux)
        for (name, f) in inv(self.loop_ctx(entry, entry, {"i": i0, "src": src})):
            self.oblige(entry, "inv-init", name, f, anchor)
        def prelude(p):
            it = self.typed(p, fresh("dry_item"), ety)
            if mode == "enumerate":
                it = SV(Val.pair(vint(fresh("dry_i", I)), it.t), PAIR(TINT, ety))
            return self.assign(s.target, it, p)
        h = self.havoc_loop_state(entry, s.body, extra_names=self.target_names(s.target), prelude=prelude)
        oc = h.loopvars.get("open_changed", set())
        self.check_open_segment(entry, oc, anchor, "inv-init", h.loopvars.get("body_has_havoc", False))
        h.tags.append(anchor)
        i = fresh("i", I)
        ln = (h.l_len(a) if is_list else h.t_len(a))
        if tup_aux is not None:
            h.assume(z3.Select(h.heap["t_item"], a) == tup_aux[0], h.t_len(a) == tup_aux[1])
            ln = tup_aux[1]
        h.assume(i >= 0, i <= ln, ln >= 0)
        for (name, f) in inv(self.loop_ctx(entry, h, {"i": i, "src": src})):
            h.assume(f)
        out = []
        s_body = h.fork(i < ln, "iter")
        s_exit = h.fork(i == ln, "exit")
        if self.feasible(s_body):
            item = s_body.l_item(a, i) if is_list else z3.Select(tup_aux[0], i)
            if not is_list:
                from .comps import tmem
                s_body.assume(tmem(tup_aux[0], ln, item))
            itemv = self.typed(s_body, item, ety)
            if mode == "enumerate":
                itemv = SV(Val.pair(vint(i), itemv.t), PAIR(TINT, ety))
            for o0 in self.assign(s.target, itemv, s_body):
                if o0.kind != "normal":
                    out.append(o0)
                    continue
                for o in self.exec_block(s.body, o0.st):
                    if o.kind in ("normal", "continue"):
                        for (name, f) in inv(self.loop_ctx(entry, o.st, {"i": i + 1, "src": src})):
                            self.oblige(o.st, "inv-keep", name, f, anchor)
                        self.check_open_segment(o.st, oc, anchor, "inv-keep", h.loopvars.get("body_has_havoc", False))
                        if is_list:
                            self.oblige(o.st, "inv-keep", "iterated-list-not-resized", o.st.l_len(a) == ln, anchor)
                    elif o.kind == "break":
                        out.append(Outcome("normal", o.st))
                    else:
                        out.append(o)
        if self.feasible(s_exit):
            self.loop_exit_lemmas(k, anchor, entry, s_exit, {"i": ln, "src": src})
            out.append(Outcome("normal", s_exit))
        return out

    def target_names(self, tgt):
        return {n.id for n in ast.walk(tgt) if isinstance(n, ast.Name)}

    def for_dict(self, s, k, anchor, entry, src, mode, inv):
        a = Val.a(src.t)
        vty = strip_opt(src.ty).args[1] if strip_opt(src.ty).kind == "dict" else ANY
        kty = strip_opt(src.ty).args[0] if strip_opt(src.ty).kind == "dict" else ANY
        P0 = z3.K(Val, z3.BoolVal(False))
        for (name, f) in inv(self.loop_ctx(entry, entry, {"P": P0, "src": src})):
            self.oblige(entry, "inv-init", name, f, anchor)
        def prelude(p):
            kk, vv = self.typed(p, fresh("dry_k"), kty), self.typed(p, fresh("dry_v"), vty)
            it = SV(Val.pair(kk.t, vv.t), PAIR(kty, vty)) if mode == "dict_items" else (vv if mode == "dict_values" else kk)
            return self.assign(s.target, it, p)
        h = self.havoc_loop_state(entry, s.body, extra_names=self.target_names(s.target), prelude=prelude)
        oc = h.loopvars.get("open_changed", set())
        self.check_open_segment(entry, oc, anchor, "inv-init", h.loopvars.get("body_has_havoc", False))
        h.tags.append(anchor)
        P = fresh("P", KB)
        kq = z3.Const("k!P", Val)
        has_arr = z3.Select(h.heap["d_has"], a)
        if not (z3.is_const(a) and a.decl().kind() == z3.Z3_OP_UNINTERPRETED) and not z3.is_int_value(a):
            # a merged / computed address: name the key-set array once (no `If` inside patterns)
            hc = fresh("dkeys", KB)
            h.assume(hc == has_arr)
            h.defs.append(hc == has_arr)
            has_arr = hc
        h.assume(z3.ForAll([kq], z3.Implies(z3.Select(P, kq), z3.Select(has_arr, kq)), patterns=[z3.Select(P, kq)]))
        for (name, f) in inv(self.loop_ctx(entry, h, {"P": P, "src": src})):
            h.assume(f)
        out = []
        key = fresh("key")
        s_body = h.fork(z3.And(z3.Select(has_arr, key), z3.Not(z3.Select(P, key))), "iter")
        s_exit = h.fork(z3.ForAll([kq], z3.Implies(z3.Select(has_arr, kq), z3.Select(P, kq)),
                                  patterns=[z3.Select(has_arr, kq)]), "exit")
        if self.feasible(s_body):
            keyv = self.typed(s_body, key, kty)
            val = self.typed(s_body, s_body.d_get(a, key), vty)
            if mode == "dict_items":
                itemv = SV(Val.pair(keyv.t, val.t), PAIR(kty, vty))
            elif mode == "dict_values":
                itemv = val
            else:
                itemv = keyv
            P2 = z3.Store(P, key, True)
            for o0 in self.assign(s.target, itemv, s_body):
                if o0.kind != "normal":
                    out.append(o0)
                    continue
                if self.spec is not None and hasattr(self.spec, "on_loop_body"):
                    o0.st.ghost = dict(o0.st.ghost)
                    self.spec.on_loop_body(self, o0.st, k, {"key": keyv, "val": val})
                for o in self.exec_block(s.body, o0.st):
                    if o.kind in ("normal", "continue"):
                        for (name, f) in inv(self.loop_ctx(entry, o.st, {"P": P2, "src": src})):
                            self.oblige(o.st, "inv-keep", name, f, anchor)
                        self.check_open_segment(o.st, oc, anchor, "inv-keep", h.loopvars.get("body_has_havoc", False))
                        self.oblige(o.st, "inv-keep", "iterated-dict-keys-unchanged",
                                    z3.Select(o.st.heap["d_has"], a) == has_arr, anchor)
                    elif o.kind == "break":
                        out.append(Outcome("normal", o.st))
                    else:
                        out.append(o)
        if self.feasible(s_exit):
            out.append(Outcome("normal", s_exit))
        return out

    # ------------------------------------------------------------------ nested function definitions
    def st_FunctionDef(self, s, st):
        qual = f"{self.fi.qual}.{s.name}"
        v = self.make_closure(st, s, qual)
        self.assign_name(st, s.name, v)
        return [Outcome("normal", st)]

    st_AsyncFunctionDef = st_FunctionDef

    def make_closure(self, st: State, node, qual: str) -> SV:
        """closure value: bound to this activation's cell environment"""
        return SV(Val.bm(vref(st.envref), z3.IntVal(METHS.id("closure:" + qual))), CLOSURE(qual))

    # ------------------------------------------------------------------ with / async with
    def st_With(self, s, st):
        return self.exec_with(s, st, is_async=False)

    def st_AsyncWith(self, s, st):
        return self.exec_with(s, st, is_async=True)

    def exec_with(self, s, st, is_async, idx=0) -> list[Outcome]:
        if idx == len(s.items):
            return self.exec_block(s.body, st)
        item = s.items[idx]
        out = []
        for r in self.eval(item.context_expr, st):
            if r.exc is not None:
                out.append(Outcome("raise", r.st, r.exc))
                continue
            cm = r.val
            for er in self.cm_enter(r.st, cm, is_async, item):
                if er.exc is not None:
                    out.append(Outcome("raise", er.st, er.exc))
                    continue
                s1 = er.st
                if item.optional_vars is not None:
                    ao = self.assign(item.optional_vars, er.val, s1)
                else:
                    ao = [Outcome("normal", s1)]
                for o0 in ao:
                    if o0.kind != "normal":
                        out.append(o0)
                        continue
                    k_ = strip_opt(cm.ty)
                    if k_.kind == "inst" and k_.name in self.reg.with_rely:
                        o0.st.loopvars = dict(o0.st.loopvars)
                        o0.st.loopvars["open_cms"] = tuple(o0.st.loopvars.get("open_cms", ())) + ((k_.name, Val.a(cm.t)),)
                    for o in self.exec_with(s, o0.st, is_async, idx + 1):
                        if k_.kind == "inst" and k_.name in self.reg.with_rely:
                            o.st.loopvars = dict(o.st.loopvars)
                            o.st.loopvars["open_cms"] = tuple(x for x in o.st.loopvars.get("open_cms", ()) if not x[1].eq(Val.a(cm.t)))
                        out.extend(self.cm_exit(o, cm, is_async, item))
        return out
