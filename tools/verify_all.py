"""verify every function named in PROPS once (deduplicated), in parallel; print the obligations that are not discharged.
usage: python3-vt tools/verify_all.py [-j N] [--skip qual,...]"""
import sys, os, json, time, multiprocessing as mp
HERE = os.path.dirname(os.path.dirname(os.path.abspath(__file__)))
sys.path.insert(0, HERE)


def one(q):
    from pyvc.world import World
    from pyvc.driver import verify_function
    from contracts import build_registry
    w = World(); reg = build_registry(w)
    t = time.time()
    r = verify_function(w, reg, q)
    bad = [o for o in r["obligations"] if o["status"] != "discharged"]
    return q, r["status"], r.get("reason", "")[-300:], len(r["obligations"]), [(o["id"], o["status"], o["path"]) for o in bad], round(time.time() - t, 1)


if __name__ == "__main__":
    from contracts.properties import PROPS
    quals = []
    for p in PROPS.values():
        for q in p["functions"]:
            if q not in quals:
                quals.append(q)
    j = int(sys.argv[sys.argv.index("-j") + 1]) if "-j" in sys.argv else 6
    skip = sys.argv[sys.argv.index("--skip") + 1].split(",") if "--skip" in sys.argv else []
    quals = [q for q in quals if q not in skip]
    os.environ.setdefault("PYVC_THREADS", "2")
    with mp.Pool(j) as pool:
        for (q, status, reason, n, bad, wall) in pool.imap_unordered(one, quals):
            print(f"{status:6s} {wall:7.1f}s {n:5d} obl  {q}  {reason if status != 'ok' else ''}", flush=True)
            for b in bad:
                print("      ", b, flush=True)
