#!/usr/bin/env python3
"""Regenerate MANIFEST.json from contracts/properties.py (claimed properties) + the fixed property list."""
import json, os, sys
HERE = os.path.dirname(os.path.dirname(os.path.abspath(__file__)))
sys.path.insert(0, HERE)
from contracts.properties import PROPS, NOT_APPLICABLE

props = [json.loads(l) for l in open(os.path.join(HERE, "properties.jsonl"))]
checks = []
na = []
for p in props:
    pid = p["id"]
    if pid in PROPS:
        P = PROPS[pid]
        checks.append({
            "property_id": pid,
            "quick_cmd": f"./check {pid} --tier quick",
            "thorough_cmd": f"./check {pid} --tier thorough",
            "evidence_file": f"evidence/{pid}.json",
            "replay_cmd_template": f"./check {pid} --replay {{path}}",
            "engine": "pyvc",
            "level_claimed": {"category": P.get("level", "proof"), "text": P["level_text"], "design_ref": P.get("design_ref", "DESIGN.md section 5")},
            "level_note": P["level_note"],
            "technique": P.get("technique", "contract-based deductive verification: sidecar contracts on the real functions, VCs generated from the AST of /repo/src on every run (pyvc), discharged by z3 5.1 / cvc5 1.0 / z3 4.8"),
        })
    else:
        na.append({"property_id": pid, "reason": NOT_APPLICABLE.get(pid, "check not built yet (build in progress, see DESIGN.md section 10)")})
m = {
    "version": 1,
    "setup_cmd": "python3-vt -m compileall -q pyvc contracts replay check.py >/dev/null 2>&1; python3-vt -c 'import z3; print(z3.get_version_string())'",
    "hooks": {"guard": "ASPHALT_VERIF", "enable": "no hooks: contracts are sidecar files in /verif/contracts; /repo/src is parsed (ast) on every run and imported unmodified by the replay harnesses",
              "baseline_off_cmd": "cd /repo && /venv/bin/python -m pytest -ra -q -p no:cacheprovider --timeout=900 --continue-on-collection-errors",
              "source_commits": [], "add_only": True},
    "engines": [{"name": "pyvc", "path": "pyvc/", "serves_properties": sorted(PROPS),
                 "kind_free_text": "verification-condition generator over the real Python AST (symbolic execution per path, loop invariants, modular calls by contract, rely/guarantee havoc at awaits and opaque calls) + SMT discharge (z3 5.1 API, cvc5 1.0, z3 4.8) + native replay harnesses"}],
    "checks": checks,
    "notes": "See DESIGN.md. Exit codes: 0 held (KNOWN-FINDING lines allowed), 1 VIOLATION, 3 checker broken. fix: commits in /repo: 9c21462 3894c3f 524db75 0241fc7 f94825d ea86732 67c7752 (known_findings.json).",
    "not_applicable": na,
}
json.dump(m, open(os.path.join(HERE, "MANIFEST.json"), "w"), indent=1)
print(f"MANIFEST: {len(checks)} checks, {len(na)} not_applicable")
