"""Sidecar contracts for asphalt.core (attached to functions in /repo/src by qualified name)."""
from pyvc.specs import Registry


def build_registry() -> Registry:
    reg = Registry()
    from . import c_utils
    c_utils.register(reg)
    return reg
