"""Sidecar contracts for asphalt.core (attached to functions in /repo/src by qualified name)."""
from pyvc.specs import Registry


def build_registry(world=None) -> Registry:
    from pyvc.world import World
    world = world or World()
    reg = Registry()
    from . import c_utils, c_event, c_context, c_context_tables, c_context_lookup, c_teardown, lib_anyio, c_lifecycle, c_dispatch, c_concurrent, c_component, c_component_ctx, c_runner, c_inject, c_cli, c_streams, c_ctx_teardown
    c_utils.register(reg)
    c_event.register(reg)
    c_context.register(reg)
    c_context_tables.register(reg)
    c_context_lookup.register(reg)
    c_teardown.register(reg)
    lib_anyio.register(reg)
    c_lifecycle.register(reg)
    c_dispatch.register(reg)
    c_concurrent.register(reg)
    c_concurrent.register2(reg)
    c_concurrent.register3(reg)
    c_component.register(reg)
    c_component_ctx.register(reg)
    c_component_ctx.register2(reg)
    c_component_ctx.register3(reg)
    c_component_ctx.register4(reg)
    c_component_ctx.register5(reg)
    c_component_ctx.register6(reg)
    c_runner.register(reg)
    c_runner.register_run(reg)
    c_runner.register_signals(reg)
    c_inject.register(reg)
    c_inject.register2(reg)
    c_inject.register3(reg)
    c_cli.register(reg)
    c_streams.register(reg)
    c_streams.register2(reg)
    c_ctx_teardown.register(reg)
    reg._signal_decls = reg._signal_decl_finder(world)
    reg.world = world
    import os
    dis = [x for x in os.environ.get('PYVC_DISABLE_INV', '').split(',') if x]
    if dis:
        reg.invariants = [e for e in reg.invariants if not any(d in e[0] for d in dis)]
        reg.guarantees = [e for e in reg.guarantees if not any(d in e[0] for d in dis)]
    return reg
