"""C10: Signal.dispatch and Signal._subscribe over the assumed memory-object-stream contract (A-MS)."""
import z3
from pyvc.smt import *
from pyvc.state import *
from pyvc.specs import FnSpec, Frame, LoopCtx
from pyvc import roles
from .lib_anyio import new_lib
from pyvc.comps import tmem, tidx, is_seq

SS = "MemoryObjectSendStream"


def q_len(H, s):
    return z3.Select(H.g("g:q_len"), s)


def q_item(H, s, i):
    return z3.Select(z3.Select(H.g("g:q_item"), s), i)


def q_room(H, s):
    return z3.Or(q_len(H, s) < z3.Select(H.g("g:q_cap"), s), z3.Select(H.g("g:q_waiting"), s))


def q_open(H, s):
    return z3.Select(H.g("g:q_recv_open"), s)


def q_closed(H, s):
    return z3.Select(H.g("g:q_send_closed"), s)


def attempts(H, s):
    return z3.Select(H.g("g:q_attempts"), s)


def streams_of(H, sig):
    return Val.a(H.fld("_send_streams", sig))


def sig_wf(H, sig):
    """I_sig for one bound signal: its subscriber list holds allocated, pairwise distinct send streams whose send end is open"""
    l = streams_of(H, sig)
    i = z3.Const("i!sw", I)
    j = z3.Const("j!sw", I)
    return z3.And(
        Val.is_ref(H.fld("_send_streams", sig)), H.l_len(l) >= 0, is_seq(z3.Select(H.h("l_item"), l), H.l_len(l)),
        0 <= l, l < H.alloc, z3.Select(H.g("g:owner"), l) == Val.pair(vref(sig), con("own:send-streams")),
        Val.is_wref(H.fld("_instance", sig)),
        z3.ForAll([i], z3.Implies(z3.And(0 <= i, i < H.l_len(l)),
                                  z3.And(Val.is_ref(H.l_item(l, i)), z3.Not(q_closed(H, Val.a(H.l_item(l, i)))),
                                         q_len(H, Val.a(H.l_item(l, i))) >= 0)),
                  patterns=[H.l_item(l, i)]),
        z3.ForAll([i, j], z3.Implies(z3.And(0 <= i, i < j, j < H.l_len(l)), H.l_item(l, i) != H.l_item(l, j)),
                  patterns=[z3.MultiPattern(H.l_item(l, i), H.l_item(l, j))]))


class DispatchImpl(FnSpec):
    """C10/C11/C18: dispatch(event) - rejects (UnboundSignal / TypeError) before anything is stamped or sent; otherwise stamps the
    event (source, topic, time) first, then makes exactly one non-blocking send attempt per subscriber of THIS signal, never
    raises because of a subscriber's state, warns once per full queue, never suspends."""
    qual = "_event.Signal.dispatch"
    properties = ("C10", "C11", "C18")
    param_types = {"self": INST("Signal"), "event": ANY}
    modifies = frozenset({"g:ev_len", "g:ev_item", "fld:source", "fld:topic", "fld:time", "g:q_len", "g:q_item", "g:warns", "g:q_attempts"})
    may_raise = True
    heavy_ensures = ("one-send-attempt-per-subscriber", "only-own-subscribers-touched", "subscriber-list-unchanged", "earlier-events-kept")

    def requires(self, F):
        me = F.addr("self")
        return [("subscriber-list-well-formed (I_sig)", z3.Implies(F.old.isset("_instance", me), sig_wf(F.old, me)))]

    def is_ok(self, F):
        me = F.addr("self")
        ev = F.t("event")
        return z3.And(F.old.isset("_instance", me), Val.is_ref(ev),
                      subcls(F.old.fld("__class__", Val.a(ev)), F.old.fld("event_class", me)))

    def ghost_exit(self, eng, st, kind):
        if kind == "return":
            me = Val.a(st.env["self"].t)
            n = z3.Select(st.heap["g:ev_len"], me)
            st.heap["g:ev_item"] = z3.Store(st.heap["g:ev_item"], me, z3.Store(z3.Select(st.heap["g:ev_item"], me), n, st.env["event"].t))
            st.heap["g:ev_len"] = z3.Store(st.heap["g:ev_len"], me, n + 1)

    def on_lib_call(self, eng, st, name, recv, pos):
        """monitor: every send happens after the event was stamped, with this event"""
        if name == SS + ".send_nowait":
            ev = st.env["event"].t
            me = Val.a(st.env["self"].t)
            eng.oblige(st, "post", "sends-the-dispatched-event", pos[0].t == ev, "send_nowait")
            eng.oblige(st, "post", "stamped-before-sending", z3.And(st.fld("topic", Val.a(ev)) == st.fld("_topic", me),
                                                                    z3.Or(st.fld("source", Val.a(ev)) == VNone,
                                                                          Val.wref(st.fld("source", Val.a(ev))) == st.fld("_instance", me))),
                       "send_nowait")

    def ensures(self, F):
        me = F.addr("self")
        x = z3.Const("x!dp", I)
        i = z3.Const("i!dp", I)
        n = F.old.g("g:ev_len")[me]
        l = streams_of(F.old, me)
        ev = F.t("event")
        items0 = z3.Select(F.old.h("l_item"), l)
        member = lambda s_: tmem(items0, F.old.l_len(l), vref(s_))
        return [
            ("accepted", self.is_ok(F)),
            ("one-event-recorded", z3.And(F.new.g("g:ev_len")[me] == n + 1,
                                          z3.Select(z3.Select(F.new.g("g:ev_item"), me), n) == ev)),
            ("other-signals-silent", z3.And(*[z3.ForAll([x], z3.Implies(x != me, z3.Select(F.new.g(c), x) == z3.Select(F.old.g(c), x)),
                                                        patterns=[z3.Select(F.new.g(c), x)]) for c in ("g:ev_len", "g:ev_item")])),
            ("stamps-only-the-event", z3.And(*[z3.ForAll([x], z3.Implies(x != Val.a(ev), F.same_at(c, x)),
                                                          patterns=[z3.Select(F.new.h(c), x)]) for c in ("fld:source", "fld:topic", "fld:time")])),
            ("stamped-with-topic", F.new.fld("topic", Val.a(ev)) == F.old.fld("_topic", me)),
            ("earlier-events-kept", z3.ForAll([x], z3.Implies(z3.And(0 <= x, x < n),
                                                              z3.Select(z3.Select(F.new.g("g:ev_item"), me), x) == z3.Select(z3.Select(F.old.g("g:ev_item"), me), x)),
                                              patterns=[z3.Select(z3.Select(F.new.g("g:ev_item"), me), x)])),
            # delivery: one attempt for every subscriber of this signal ...
            ("one-send-attempt-per-subscriber", z3.ForAll([i], z3.Implies(z3.And(0 <= i, i < F.old.l_len(l)),
                                                                          attempts(F.new, Val.a(F.old.l_item(l, i))) == attempts(F.old, Val.a(F.old.l_item(l, i))) + 1),
                                                          patterns=[F.old.l_item(l, i)])),
            # ... and nothing for anybody else (frame: only this channel's subscribers)
            ("only-own-subscribers-touched", z3.ForAll([x], z3.Implies(z3.Not(member(x)),
                                                                       z3.And(attempts(F.new, x) == attempts(F.old, x), q_len(F.new, x) == q_len(F.old, x),
                                                                              z3.Select(F.new.g("g:q_item"), x) == z3.Select(F.old.g("g:q_item"), x))),
                                                       patterns=[attempts(F.new, x)])),
            ("subscriber-list-unchanged", z3.And(F.new.l_len(l) == F.old.l_len(l), z3.Select(F.new.h("l_item"), l) == z3.Select(F.old.h("l_item"), l))),
        ]

    def local_ensures(self, F):
        return [("never-suspends", z3.Not(F.new_st.suspended))]

    def raises(self, F):
        return [("rejected-only-if-unbound-or-wrong-class", z3.Not(self.is_ok(F))),
                ("raises-UnboundSignal-or-TypeError", z3.If(F.old.isset("_instance", F.addr("self")), F.exc_is("TypeError"), F.exc_is("UnboundSignal"))),
                ("nothing-recorded", F.same("g:ev_len", "g:ev_item", "g:q_len", "g:q_item", "g:warns", "g:q_attempts", "fld:source", "fld:topic", "fld:time"))]

    def _loop0(self, L):
        """for stream in list(self._send_streams)"""
        me = Val.a(L.v("self").t)
        E, C = L.entry, L.cur
        l0 = streams_of(E, me)
        src = L.it["src"]
        la = Val.a(src.t)
        i = z3.Const("i!dl", I)
        x = z3.Const("x!dl", I)
        k = L.it["i"]
        item = lambda H, j: H.l_item(la, j)
        items0 = z3.Select(E.h("l_item"), l0)
        member_prefix = lambda s_: z3.And(tmem(items0, E.l_len(l0), vref(s_)), tidx(items0, E.l_len(l0), vref(s_)) < k)
        return [
            ("copy-is-the-subscriber-list", z3.And(C.l_len(la) == E.l_len(l0), z3.Select(C.h("l_item"), la) == z3.Select(E.h("l_item"), l0), la != l0)),
            ("processed-prefix-attempted-once", z3.ForAll([i], z3.Implies(z3.And(0 <= i, i < k),
                                                                          attempts(C, Val.a(item(C, i))) == attempts(E, Val.a(item(C, i))) + 1),
                                                          patterns=[item(C, i)])),
            ("others-untouched", z3.ForAll([x], z3.Implies(z3.Not(member_prefix(x)),
                                                           z3.And(attempts(C, x) == attempts(E, x), q_len(C, x) == q_len(E, x),
                                                                  z3.Select(C.g("g:q_item"), x) == z3.Select(E.g("g:q_item"), x))),
                                           patterns=[attempts(C, x)])),
            ("subscriber-list-unchanged", z3.And(C.l_len(l0) == E.l_len(l0), z3.Select(C.h("l_item"), l0) == z3.Select(E.h("l_item"), l0))),
            ("counters-only-grow", z3.And(z3.ForAll([x], attempts(C, x) >= attempts(E, x), patterns=[attempts(C, x)]),
                                          C.g("g:warns") >= E.g("g:warns"))),
            ("send-ends-still-open", z3.And(*[z3.Select(C.g(c), x_) == z3.Select(E.g(c), x_) for c in () for x_ in ()]) if False else
             (C.g("g:q_send_closed") == E.g("g:q_send_closed"))),
            ("only-queues-written", z3.And(C.h("fld:topic") == E.h("fld:topic"), C.h("fld:source") == E.h("fld:source"),
                                           C.h("fld:_topic") == E.h("fld:_topic"), C.h("fld:_instance") == E.h("fld:_instance"))),
            ("alloc-monotone", C.alloc >= E.alloc),
        ]

    def __init__(self):
        self.loops = {0: self._loop0}


_ridx = z3.Function("sub_idx", z3.ArraySort(I, Val), I, I, I)     # witness index of a stream in a subscriber list (items, len, stream)


def roles_idx(H, l, s_):
    """skolem: index at which stream s_ occurs in list l of heap H (meaningful only when it occurs)"""
    return _ridx(z3.Select(H.h("l_item"), l), H.l_len(l), s_)


class Subscribe(FnSpec):
    """C10: Signal._subscribe(send) - a bracket: subscribed on entry, that same stream unsubscribed on every way of leaving."""
    qual = "_event.Signal._subscribe"
    generator_cm = True      # a call only creates the context manager; enter/exit effects at `with` / enter_context come from the bracket clauses
    properties = ("C10", "C06")
    param_types = {"self": INST("Signal"), "send": LIB(SS)}
    modifies = "rely"
    suspends = True

    def requires(self, F):
        me = F.addr("self")
        return [("subscriber-list-well-formed (I_sig)", z3.Implies(F.old.isset("_instance", me), sig_wf(F.old, me)))]

    def extra_rely(self, eng, st, anchor=""):
        """A-SUB1: while subscribed, nobody else unsubscribes this stream (every subscription removes only its own stream)"""
        me = Val.a(st.env["self"].t)
        send = st.env["send"].t
        st.uses.add("A-SUB1")

        def keep(old, new):
            l = streams_of(old, me)
            return z3.And(new.fld("_send_streams", me) == old.fld("_send_streams", me),
                          z3.Implies(tmem(z3.Select(old.h("l_item"), l), old.l_len(l), send),
                                     tmem(z3.Select(new.h("l_item"), l), new.l_len(l), send)),
                          is_seq(z3.Select(new.h("l_item"), l), new.l_len(l)))
        return [("A-SUB1:own-stream-stays-subscribed", keep)]

    def at_yield(self, eng, st, val):
        # the stream just appended is a member (ground instance of the membership definition)
        me = Val.a(st.env["self"].t)
        l = Val.a(st.fld("_send_streams", me))
        items, ln = z3.Select(st.heap["l_item"], l), st.l_len(l)
        st.assume(is_seq(items, ln), tmem(items, ln, st.env["send"].t))

    def local_ensures(self, F):
        return self._bracket(F)

    def local_raises(self, F):
        # raising before the subscription (unbound signal) is the only path without a bracket
        tr = F.new_st.trace
        if not any(e[0] == "yield" for e in tr):
            return [("raises-before-subscribing-only-if-unbound", z3.Not(F.old.isset("_instance", F.addr("self"))))]
        return self._bracket(F)

    def _bracket(self, F):
        tr = F.new_st.trace
        me = F.addr("self")
        kinds = [e[0] for e in tr if e[0] in ("append", "yield", "remove", "pop")]
        send = F.t("send")
        ok_shape = kinds == ["append", "yield", "remove"]
        out = [("subscribe-then-yield-then-unsubscribe", z3.BoolVal(ok_shape))]
        if ok_shape:
            app = next(e for e in tr if e[0] == "append")
            rem = next(e for e in tr if e[0] == "remove")
            out.append(("subscribes-the-given-stream-to-this-signal", z3.And(app[2].t == send, app[1].t == F.old.fld("_send_streams", me))))
            out.append(("unsubscribes-that-same-stream", z3.And(rem[2].t == send, rem[1].t == F.old.fld("_send_streams", me))))
        return out


def register(reg):
    reg.lib_classes |= {SS, "MemoryObjectReceiveStream", "StreamStatistics"}
    reg.ghost_comps.update({"g:q_cap": AI, "g:q_recv_open": AB, "g:q_send_closed": AB, "g:q_waiting": AB, "g:q_attempts": AI})
    reg.schema["Signal"]["_instance"] = Ty("wref")
    reg.lib_schema["StreamStatistics"] = {"max_buffer_size": ANY}
    T = reg.assumptions_text
    T["A-MS"] = ("anyio memory object stream: send_nowait never suspends; raises ClosedResourceError if this send end is closed, "
                 "BrokenResourceError if no receive end is open, else hands the item over / buffers it if there is room, else raises WouldBlock")
    T["A-WR"] = "weakref.ref(x)() is x while x is alive, else None; weak references / WeakKeyDictionary keep nothing alive"
    T["A-SUB1"] = "a subscription removes only its own stream from a signal's subscriber list (streams are private to their stream_events call)"
    T["A-CM"] = "@contextmanager / @asynccontextmanager: enter runs the body to its yield, exit resumes it with the block's outcome"

    def send_nowait(eng, st, recv, pos, kw, node, awaited):
        st.uses.add("A-MS")
        if eng.spec is not None and hasattr(eng.spec, "on_lib_call"):
            eng.spec.on_lib_call(eng, st, SS + ".send_nowait", recv, pos)
        s = Val.a(recv.t)
        H = HeapView(st.heap)
        st.heap["g:q_attempts"] = z3.Store(st.heap["g:q_attempts"], s, attempts(H, s) + 1)
        out = []
        cases = [("ClosedResourceError", q_closed(H, s)),
                 ("BrokenResourceError", z3.And(z3.Not(q_closed(H, s)), z3.Not(q_open(H, s)))),
                 ("WouldBlock", z3.And(z3.Not(q_closed(H, s)), q_open(H, s), z3.Not(q_room(H, s))))]
        for cls, cond in cases:
            b = st.fork(cond, cls)
            if eng.feasible(b):
                out.append(eng.raise_new(b, cls))
        ok = st.fork(z3.And(z3.Not(q_closed(H, s)), q_open(H, s), q_room(H, s)))
        if eng.feasible(ok):
            n = z3.Select(ok.heap["g:q_len"], s)
            ok.heap["g:q_item"] = z3.Store(ok.heap["g:q_item"], s, z3.Store(z3.Select(ok.heap["g:q_item"], s), n, pos[0].t))
            ok.heap["g:q_len"] = z3.Store(ok.heap["g:q_len"], s, n + 1)
            out.append(Res(ok, NONE_SV))
        return out
    reg.lib_methods[SS + ".send_nowait"] = send_nowait

    def statistics(eng, st, recv, pos, kw, node, awaited):
        v = new_lib(eng, st, "StreamStatistics")
        return [Res(st, v)]
    reg.lib_methods[SS + ".statistics"] = statistics

    def warn(eng, st, pos, kw, node):
        # warnings.warn: assumed not to raise (filter is not `error`); counted
        st.heap["g:warns"] = st.heap["g:warns"] + 1
        return [Res(st, NONE_SV)]
    reg.ext_calls["warnings.warn"] = warn
    reg.ext_calls["time.time"] = lambda eng, st, pos, kw, node: [Res(st, SV(fresh("now"), ANY))]
    reg.specs.pop("_event.Signal.dispatch", None)
    reg.add(DispatchImpl)
    reg.add(Subscribe)

    def g_q(old, new):
        """attempt counters and warning count only grow (ghost)"""
        x = z3.Const("x!gq", I)
        return z3.And(z3.ForAll([x], attempts(new, x) >= attempts(old, x), patterns=[attempts(new, x)]), new.g("g:warns") >= old.g("g:warns"))
    reg.guarantees.append(("G-q:send-attempt-counters-only-grow", g_q, ("g:q_attempts", "g:warns")))
