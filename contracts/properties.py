"""Property -> functions under contract, trusted base, undecided clauses (DESIGN section 5)."""

PROPS = {}
NOT_APPLICABLE = {}

PROPS["C17"] = {
    "functions": ["_utils.merge_config"],
    "trusted": ["dict model (DESIGN 2.4): == on keys is logical equality; no dict subclass overriding __setitem__/get",
                "isinstance(x, dict) total and side-effect free"],
    "assumptions": [
        "Python semantics as encoded by pyvc (DESIGN 2.4); termination not proved (cyclic dictionaries excluded)",
        "deep correctness = induction on nesting depth over the one-level contract: the contract is assumed at the recursive "
        "call (verified modularly against itself), results of recursive calls are sealed (only-result-written) and every "
        "pre-existing dict is unchanged (inputs-unmodified), so `Merged` facts stay true after they are established",
    ],
    "undecided": ["termination on cyclic dictionaries"],
    "level_text": "Proof: every clause of the statement is a postcondition of the real merge_config body, discharged for all "
                  "inputs (any keys, any depth via the recursive call's own contract), all loop iteration counts; a native "
                  "bounded differential harness supplies replayable counterexamples and guards against vacuity.",
    "level_note": "Trusted: pyvc's encoding of Python dict semantics (DESIGN 2.4), z3/cvc5. Deep correctness is induction on depth "
                  "over the one-level contract (history predicate Merged + sealed results + unchanged inputs). Termination not proved.",
    "design_ref": "DESIGN.md section 5 (C17)",
    "explanation": "C17 is the postcondition of merge_config; every clause of the statement is an `ensures` clause proved "
                   "for all inputs on every path of the real body, with a loop invariant over the processed-key set.",
}
