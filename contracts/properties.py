"""Property -> functions under contract, trusted base, undecided clauses (DESIGN section 5)."""

PROPS = {}
NOT_APPLICABLE = {}

PROPS["C17"] = {
    "functions": ["_utils.merge_config"],
    "trusted": ["dict model (DESIGN 2.4): == on keys is logical equality; no dict subclass overriding __setitem__/get",
                "isinstance(x, dict) total and side-effect free"],
    "assumptions": [
        "Python semantics as encoded by pyvc (DESIGN 2.4); termination not proved (cyclic dictionaries excluded)",
        "deep correctness = induction on nesting depth over the one-level contract: the contract is assumed at the recursive "
        "call (verified modularly against itself), results of recursive calls are sealed (only-result-written) and every "
        "pre-existing dict is unchanged (inputs-unmodified), so `Merged` facts stay true after they are established",
    ],
    "undecided": ["termination on cyclic dictionaries"],
    "level_text": "Proof: every clause of the statement is a postcondition of the real merge_config body, discharged for all "
                  "inputs (any keys, any depth via the recursive call's own contract), all loop iteration counts; a native "
                  "bounded differential harness supplies replayable counterexamples and guards against vacuity.",
    "level_note": "Trusted: pyvc's encoding of Python dict semantics (DESIGN 2.4), z3/cvc5. Deep correctness is induction on depth "
                  "over the one-level contract (history predicate Merged + sealed results + unchanged inputs). Termination not proved.",
    "design_ref": "DESIGN.md section 5 (C17)",
    "explanation": "C17 is the postcondition of merge_config; every clause of the statement is an `ensures` clause proved "
                   "for all inputs on every path of the real body, with a loop invariant over the processed-key set.",
}


CTX_TRUSTED = [
    "A0 cooperative atomicity (asyncio/trio run one task at a time; control changes only at await)",
    "A1 foreign code touches asphalt state only through the public API (field-write census inside the package)",
    "dict/tuple model of pyvc (DESIGN 2.4): == on (type, name) keys is logical equality",
    "A-DESC descriptor wiring of Signal attributes (re-accessed bound signal carries the declaration's event class)",
    "Signal.dispatch contract (verified separately for C10)",
    "A-DIAG diagnostic helpers are pure", "A-TYPING typing helpers are pure", "A-CV contextvars",
]
CTX_ASSUME = [
    "Python semantics as encoded by pyvc (DESIGN 2.4); termination not proved",
    "rely at opaque calls / awaits = conjunction of the guarantees every verified asphalt operation re-establishes "
    "(G-mono, G-st, G-ev, G-init) + immutability of construction-time fields (census)",
    "excluded region of known finding F6 (listed under known_findings when it applies)",
]

_LOOKUP = ["_context.Context.get_resource_nowait", "_context.Context.get_resource"]
_ADDS = ["_context.Context.add_resource", "_context.Context.add_resource_factory"]

PROPS["C03"] = {
    "functions": _ADDS + _LOOKUP + ["_context.Context.add_teardown_callback", "_context.Context._ensure_state"],
    "trusted": CTX_TRUSTED, "assumptions": CTX_ASSUME, "undecided": [],
    "level_text": "Proof: add_resource / add_resource_factory are verified against `raises => every context observably unchanged` on every "
                  "raising path and against exact table extension on success; every atomic segment of every lookup and add re-establishes "
                  "G-mono (a key once present keeps its object), which as rely makes repeated lookups return the same object under any "
                  "interleaving. A model-based native harness replays counterexamples.",
    "level_note": "Trusted base: assumed contracts A0, A1, A-DESC, A-DIAG, A-TYPING, pyvc's Python encoding, z3/cvc5. Known finding F6 "
                  "(racing generation of the same key) is excluded as a region and reported as KNOWN-FINDING.",
    "design_ref": "DESIGN.md section 5 (C03)",
    "explanation": "contract clauses exc:unchanged, resources:keys/old-entries-kept, guar:G-mono on the real bodies",
}
PROPS["C18"] = {
    "functions": _ADDS + _LOOKUP,
    "clauses": lambda q, o: any(t in o["id"] for t in ("event", "announces", "one-event", "exc:unchanged", "canary", "G-ev", "I-ev0", "dispatch",
                                                            # what ties the announced types (= the container's types) to the keys really written:
                                                            "inserted-", "only-free-keys-added", "only-keys-of-T-added", "I-conv", "store-loop-iterates",
                                                            "requested-key-holds", "resources:keys", "resources:new-entries", "factories:keys",
                                                            "factories:new-entries")),
    "trusted": CTX_TRUSTED, "assumptions": CTX_ASSUME, "undecided": ["delivery of the event to subscribers is C10"],
    "level_text": "Proof: the ghost event log of the context's own resource_added signal grows by exactly one event with the registered "
                  "types/name/description/is_factory on every successful add and first generation, by nothing on raising paths and hits, and "
                  "no other signal's log changes (frame).",
    "level_note": "Trusted: Signal.dispatch contract (records one event on its own signal; verified under C10), A-DESC, pyvc encoding.",
    "design_ref": "DESIGN.md section 5 (C18)",
    "explanation": "event:* postconditions and announces-nothing / one-event-iff-generated local clauses; the announced types are the "
                   "container's types (event clause) and the container is stored under exactly those keys (store-loop invariants inserted-prefix / "
                   "only-free-keys-added, I-conv, resources:keys)",
}
PROPS["C02"] = {
    "functions": ["_context.Context.__init__", "_context.Context.get_resources"] + _ADDS + _LOOKUP,
    "trusted": CTX_TRUSTED, "assumptions": CTX_ASSUME + ["injected parameters: see C19"], "undecided": [],
    "level_text": "Proof: Context.__init__ builds fresh tables equal to the parent's static resources and all factories (snapshot) and writes "
                  "nothing of the parent; every operation writes only the receiver's own tables (frame + ownership invariant I-own); "
                  "get_resources agrees with keyed lookups (I-conv). History: snapshot + own adds by induction over the contracts.",
    "level_note": "Trusted: A1, A-CV (implicit parent = current context), pyvc encoding. The history lemma is the composition of the per-operation "
                  "frames (each operation's contract is proved; the induction over histories is the usual contract composition).",
    "design_ref": "DESIGN.md section 5 (C02)",
    "explanation": "snapshot:* postconditions of __init__, other-dicts-unchanged frames, I-own, I-conv",
}
PROPS["C04"] = {
    "functions": _LOOKUP + ["_context.Context.__init__", "_context.Context.add_resource_factory"],
    "trusted": CTX_TRUSTED, "assumptions": CTX_ASSUME, "undecided": [],
    "level_text": "Proof: a lookup through a factory calls it exactly once (activation-local call count), stores one is_generated container under "
                  "the factory's free types, never replaces an entry (G-mono), returns the table entry; __init__ filters generated containers; the "
                  "sync API on a coroutine product raises AsyncResourceError having written nothing. Racing lookups are covered by the rely except "
                  "for the region of known finding F6.",
    "level_note": "Trusted: A0, A1, pyvc encoding. KNOWN-FINDING F6: two lookups racing on one factory both call it (excluded region: the requested "
                  "key gets registered by someone else while the product is produced).",
    "design_ref": "DESIGN.md section 5 (C04)",
    "explanation": "generated:* postconditions, factory-called-exactly-once, registers-nothing, snapshot:static-resources-only",
}


LIFE_TRUSTED = CTX_TRUSTED + [
    "A-XS contextlib.AsyncExitStack (entries run LIFO, raising entry replaces the exception in flight, remaining entries still run)",
    "A-TG2 anyio task-group exit (waits for children; body exception X alone comes out as a group of exactly [X])",
    "A-TD1 one teardown loop per context (the with-protocol calls __aexit__ once)",
    "A-TD2 nobody registers a callback on a root context between the end of its teardown loop and `closed`",
    "A-EXC with-statement protocol passes the block's exception (or None) to __aexit__",
]

PROPS["C01"] = {
    "functions": ["_context.Context._run_teardown_callbacks", "_context.Context.add_teardown_callback", "_context.Context.__aenter__",
                  "_context.Context.__aexit__", "_context.Context.add_resource", "_context.context_teardown.wrapper",
                  "_context.context_teardown.wrapper.teardown_callback", "_context.context_teardown", "_context.Context.start_service_task"],
    "trusted": LIFE_TRUSTED + ["async generator protocol: asend(None) runs the generator to its first yield or raises StopAsyncIteration; aclose() finishes it"],
    "assumptions": CTX_ASSUME + ["all four registration routes end in Context.add_teardown_callback: directly, add_resource(teardown_callback=), "
                  "@context_teardown (wrapper verified: registers exactly once, after the generator reached its yield, on the context current at call "
                  "time, with pass_exception) and start_service_task (verified under C08)"],
    "undecided": ["termination of the teardown loop (a callback may register callbacks forever)",
                  "'on both backends': only through the backend-independent assumed contracts"],
    "level_text": "Proof: ghost registration tokens turn `exactly once, LIFO, also for callbacks registered during teardown` into a stack "
                  "invariant (INV_td) that the real loop body preserves for every number/kind of callbacks and every raising subset (any "
                  "BaseException at any call/await); monitors at the pop / call / await events prove largest-pending-token, single "
                  "invocation, argument = block exception iff pass_exception, awaitable awaited before the next pop; exit = one group with "
                  "exactly the raised exceptions, cause = block exception. __aexit__ is verified over the AsyncExitStack model: teardown is the "
                  "first entry run, closed on every outcome, block exception re-raised as itself.",
    "level_note": "Trusted: A0, A1, A-XS, A-TG2, A-TD1, A-TD2, A-EXC, pyvc encoding. fixed: F7 (ambient exception). Bounded harness covers "
                  "both backends' real behaviour on sampled scenarios.",
    "design_ref": "DESIGN.md section 5 (C01)",
    "explanation": "loop invariant stack-invariant, monitors lifo:largest-pending-token / exactly-once / arg-is-block-exception / awaits-the-callbacks-awaitable",
}
PROPS["C12"] = {
    "functions": ["_context.Context.__aenter__", "_context.Context.__aexit__", "_context.Context.__init__", "_context.current_context"],
    "trusted": LIFE_TRUSTED, "assumptions": CTX_ASSUME + ["per-task isolation and inheritance at spawn are contextvars/anyio semantics (A-CV, A-TG3)"],
    "undecided": ["concurrent tasks never disturb each other: carried entirely by A-CV"],
    "level_text": "Proof: __aenter__ makes the context current and stores the previous value in the reset entry placed below the teardown "
                  "entry; __aexit__ restores exactly that value on every outcome (teardown raising, task group raising, cancellation) after "
                  "teardown ran with the context still current; __init__ takes the explicit parent, else the current context, skipping "
                  "ComponentContexts.",
    "level_note": "Trusted: A-CV (contextvars set/reset/per-task copy), A-XS, pyvc encoding.",
    "design_ref": "DESIGN.md section 5 (C12)",
    "explanation": "is-the-current-context, remembers-the-previous-current-context, previous-current-context-restored, parent-choice",
}
PROPS["C13"] = {
    "functions": ["_context.Context._ensure_state", "_context.Context.closed", "_context.Context.__aenter__", "_context.Context.__aexit__",
                  "_context.Context.add_resource", "_context.Context.add_resource_factory", "_context.Context.get_resource",
                  "_context.Context.get_resource_nowait", "_context.Context.add_teardown_callback"],
    "trusted": LIFE_TRUSTED, "assumptions": CTX_ASSUME, "undecided": [],
    "level_text": "Proof: each of the five operations is verified against `wrong state => RuntimeError and nothing changed` with the allowed "
                  "state sets taken from the statement ({open, closing}; add_resource_factory {open}); __aenter__ only from inactive with "
                  "rollback; `closed` <=> closing/closed and monotone (G-st); __aexit__ sets closed on every outcome and raises RuntimeError "
                  "for a still-open child.",
    "level_note": "Trusted: A-XS, pyvc encoding.",
    "design_ref": "DESIGN.md section 5 (C13)",
    "explanation": "allowed-only-* / wrong-state-raises-RuntimeError / closed-on-every-outcome / G-st",
}


PROPS["C11"] = {
    "functions": ["_event.Signal.__get__", "_event.Signal._check_is_bound_signal"],
    "trusted": ["A-WR weakref.ref / WeakKeyDictionary hold no strong reference; keys are looked up by ==/hash (modelled as identity of the "
                "instance: see known finding F8)", "A-DC dataclasses: a field(init=False) without default leaves the attribute unset",
                "pyvc dict model"],
    "assumptions": ["owner instances are identity-hashed (excluded region of known finding F8: instances that compare equal without being identical)",
                    "Signal.dispatch delivery frame (only this channel's subscribers) is C10"],
    "undecided": [],
    "level_text": "Proof: Signal.__get__ returns the table entry of (instance, attribute); defined once (G-bind: bindings permanent), fresh on first "
                  "access with the declaration's topic/event class, a weak reference to the instance and a fresh empty subscriber list; invariant "
                  "I-bsig (every bound signal records its own instance and attribute) makes distinct pairs map to distinct signals; class-level "
                  "use raises UnboundSignal exactly for declarations.",
    "level_note": "Trusted: A-WR, A-DC, pyvc encoding. KNOWN-FINDING F8 (equal-but-distinct instances share a channel). fixed: F1.",
    "design_ref": "DESIGN.md section 5 (C11)",
    "explanation": "same-on-reaccess, fresh-on-first-access, other-topics-untouched, I-bsig, G-bind",
}


PROPS["C10"] = {
    "functions": ["_event.Signal.dispatch", "_event.Signal._subscribe", "_event.Signal._check_is_bound_signal", "_event.Signal.__get__",
                  "_event.stream_events", "_event.stream_events.filter_events", "_event.wait_event", "_event.Signal.wait_event"],
    "trusted": ["A-MS anyio memory object stream (send_nowait: closed -> ClosedResourceError, no receiver -> BrokenResourceError, room -> "
                "buffered/handed over, else WouldBlock; never suspends; FIFO, each item once)", "A-CM contextmanager generator protocol",
                "A-WR weakref", "A-SUB1 a subscription removes only its own stream", "warnings.warn does not raise", "pyvc list model"],
    "assumptions": ["the unwinding of stream_events' exit stack (symbolic depth) is outside the deductive reach of this build: "
                    "covered by the bounded harness only; the composition lemma (FIFO + bracket => exact subsequence) rests on A-MS",
                    "I_sig (open, distinct send streams in every subscriber list) is a precondition of dispatch"],
    "undecided": ["promptness (wait_event returns as soon as ...)"],
    "level": "other",
    "level_text": "Partly proved, partly bounded: Signal.dispatch is verified against: rejected (UnboundSignal/TypeError) before anything is stamped "
                  "or sent; event stamped (source, topic, time) before the first send; exactly one non-blocking send attempt per subscriber of "
                  "this signal and none for anybody else (frame); BrokenResourceError/WouldBlock swallowed, one SignalQueueFull warning per full "
                  "queue, ClosedResourceError impossible under I_sig; never suspends. Signal._subscribe is verified as a bracket (append, yield, "
                  "remove of the same stream on every exit). stream_events is verified up to its yield: 'the listening starts when this function is called' - "
                  "on entry, with no suspension point passed, this call's send stream is in the subscriber list of every given (bound) signal; wait_event "
                  "enters it before its first suspension; filter_events yields exactly the received events the filter accepts. Exit half of stream_events: proved "
                  "that at the yield its exit stack holds the generator's aclose, both stream ends and exactly one _subscribe bracket per given signal (so "
                  "that, by A-XS and the verified bracket, leaving the block in any way unsubscribes this call's stream from every signal and closes it); the "
                  "unwinding itself (library code, symbolic depth) is bounded by the harness.",
    "level_note": "Not counted as proved: the exit half of stream_events (bounded, scope in evidence). Trusted: A-MS, A-MS0, A-CM, A-SEQ, A-WR, A-SUB1.",
    "design_ref": "DESIGN.md section 5 (C10)",
    "technique": "contract-based deductive verification of Signal.dispatch and Signal._subscribe (pyvc + z3) + bounded model-based harness for the stream_events/wait_event wrappers",
    "explanation": "dispatch: one-send-attempt-per-subscriber, only-own-subscribers-touched, stamped-before-sending, never-suspends; _subscribe bracket. "
                   "stream_events, wait_event, filter_events are covered by the bounded harness only (labelled bounded).",
}


TASK_TRUSTED = LIFE_TRUSTED + [
    "A-TG3/A-TG4 anyio TaskGroup.start_soon / start (spawn semantics; RuntimeError and nothing spawned when the group is not active)",
    "A-CS CancelScope (cancel synchronous/idempotent, scope exit swallows exactly its own cancellation, scopes independent)",
    "A-EV anyio.Event (set synchronous, wait returns only when set)", "A-DC dataclass default_factory gives every handle its own scope and event",
    "A-WITH a context entered by `async with` is left only by the entering task", "A-TF1 only the task wrapper removes its handle",
    "AX-ITER-PURE inspecting signature(func).parameters has no side effects",
]

PROPS["C08"] = {
    "functions": ["_context.Context.start_service_task", "_context.Context.start_service_task.finalize_service_task",
                  "_concurrent.run_background_task", "_concurrent.TaskHandle.cancel", "_concurrent.TaskHandle.wait_finished",
                  "_context.Context._run_teardown_callbacks"],
    "trusted": TASK_TRUSTED, "assumptions": CTX_ASSUME + ["the finaliser's own awaits are not cancelled (excluded by the statement)"],
    "undecided": ["liveness: teardown_action=None requires the task to finish by itself (the user's obligation)"],
    "level_text": "Proof: start_service_task validates teardown_action before anything starts, spawns run_background_task(func, self, handle) in "
                  "its own task group and only after the task started registers the finaliser closure on this context (so, by C01's LIFO loop, it "
                  "runs before every callback registered earlier); the finaliser closure calls the action exactly once iff callable (awaiting its "
                  "awaitable), cancels iff 'cancel' or the action raised, and on every path returns only after wait_finished(); "
                  "run_background_task sets the finished event on every outcome and only after its own child context (explicit parent = owner) "
                  "has been closed, inside the cancel scope the handle was created with (the one the finaliser's cancel() acts on); an escaping Exception "
                  "is re-raised into the task group.",
    "level_note": "Trusted: A-TG1..4, A-CS, A-EV, A-DC, A-WITH, A-XS, A0. Composition with C01 (LIFO) is by contract.",
    "design_ref": "DESIGN.md section 5 (C08)",
    "explanation": "finalize_service_task: action-called-exactly-once-iff-callable, cancelled-as-the-action-dictates, waits-for-the-task-last; "
                   "run_background_task: finished-implies-own-context-closed; start_service_task: one-task-started-then-one-finaliser-registered",
}
PROPS["C09"] = {
    "functions": ["_concurrent.TaskFactory.start_task", "_concurrent.TaskFactory.start_task_soon", "_concurrent.TaskFactory._run_background_task",
                  "_concurrent.TaskFactory.all_task_handles", "_concurrent.TaskFactory._run", "_context.Context.start_background_task_factory",
                  "_concurrent.run_background_task", "_concurrent.TaskHandle.cancel",
                  "_concurrent.TaskHandle.wait_finished", "_context.Context.start_service_task.finalize_service_task"],
    "trusted": TASK_TRUSTED, "assumptions": CTX_ASSUME + ["TaskFactory._run (waits for the finished event inside its task group) and Context.start_background_task_factory "
                  "(service task running factory._run with teardown_action = factory._finished_event.set) are verified; with the finaliser's callable "
                  "case (C08) this gives `teardown signals, then waits for every background task, does not cancel`"],
    "undecided": [],
    "level_text": "Proof: start_task_soon / start_task create a fresh handle (own cancel scope and event), spawn the task wrapper with (func, handle, "
                  "factory.exception_handler) in the factory's group; the handle is in the set iff the spawn succeeded (fixed F10) and the wrapper "
                  "removes exactly its own handle on every outcome after the task ended; the wrapper passes the factory's own context as explicit "
                  "parent (never the spawner's); run_background_task offers an escaping Exception to the handler exactly once, swallows iff truthy, "
                  "lets other BaseExceptions bypass it, sets the finished event on every outcome, runs the task function inside the cancel scope the "
                  "handle was created with and never rebinds the handle's scope or event (so a cancel() issued before the task's first step is not "
                  "lost); cancel() touches only the handle's own scope; "
                  "all_task_handles() returns a fresh copy.",
    "level_note": "Trusted: A-TG1..4, A-CS, A-EV, A-DC, A-WITH, A-TF1. fixed: F10.",
    "design_ref": "DESIGN.md section 5 (C09)",
    "explanation": "handle-registered, spawn-failed-handle-set-unchanged, removes-the-handle-on-every-outcome, task-context-parent-is-the-factory-context, handler clauses",
}


COMP_TRUSTED = CTX_TRUSTED + [
    "A-TG2/A-TG3 anyio task group (start_soon spawns exactly one task per call; the group's exit waits for all of them; first failure cancels the rest)",
    "A-WITH a context entered by `async with` is left only by the entering task", "A-XS AsyncExitStack",
    "A-TREE the ComponentContext objects form a tree and only the activation _start_component(cc) writes cc's component state",
    "A-NEW calling a class that passed isclass/issubclass(cls, Component) yields a Component instance (no metaclass tricks); "
    "its _child_components is None or the dict written by add_component",
    "A-PLUG a PluginContainer's cache/entry-point dictionaries are private to it", "A-REF resolve_reference (import + getattr walk)",
    "A-BADARG merge_config raises before writing when given a non-dict",
    "A-NEXT `await stream.__anext__()` on the filtering generator runs it to its next yield (async generator protocol); the generator itself "
    "(filter_events) is verified: it yields exactly the received events the filter accepts; A-MS0 create_memory_object_stream gives a fresh open pair; "
    "A-SEQ a list of signals is read like the tuple of its items; A-STREAM-EXIT leaving stream_events unsubscribes and closes (bounded)",
    "lemma:frame (proved every run, listed under functions): writes confined to private containers preserve every class invariant and guarantee",
]
COMP_ASSUME = CTX_ASSUME + [
    "opaque strings: str.split and f-strings are uninterpreted deterministic functions of their arguments (split: >= 1 item, >= 2 when the separator occurs)",
    "whole-tree statements (order across more than one level, exactly-once over the tree, 'no part still running') are the composition of the "
    "per-node contract of _start_component over the tree built by _init_component; the composition itself is checked by the bounded harness only",
]

PROPS["C05"] = {
    "functions": ["_component.start_component", "_component._init_component", "_component._start_component",
                  "_component.ComponentContext.__init__", "_component.ComponentContext.get_resource",
                  "_component.ComponentContext.get_resource.<lambda@0>", "_component.ComponentContext.get_resource_nowait",
                  "_component.ComponentContext.get_resources", "_component.ComponentContext.add_resource",
                  "_component.ComponentContext.add_resource_factory", "_component.ComponentContext.add_teardown_callback",
                  "_component.ComponentContext.start_service_task", "_component.ComponentContext.start_background_task_factory", "lemma:frame"],
    "trusted": COMP_TRUSTED, "assumptions": COMP_ASSUME,
    "undecided": ["liveness of acyclic waiting patterns (every waiter is eventually released) - bounded harness only",
                  "teardown of what was registered when the surrounding context is left: C01/C08 (composition by contract)"],
    "level": "other",
    "level_text": "Partly proved, partly bounded. Proved on the real bodies, for all inputs and paths: start_component builds the whole tree "
                  "(_init_component, once, returned) strictly before the single _start_component call on that tree's root, spawns the watchdog first iff "
                  "a timeout is given and cancels it only after a successful start, returns the root's component; _init_component resolves, constructs "
                  "and recurses exactly once per child of the merged configuration; _start_component (per node, inside `async with` its context): "
                  "prepare() iff overridden and before any child is spawned, every child spawned exactly once in one atomic segment inside an inner task "
                  "group, start() iff overridden and only after that group exited normally, state started at return; every registering operation of a "
                  "ComponentContext (add_resource, add_resource_factory, add_teardown_callback, start_service_task, start_background_task_factory) "
                  "and every lookup forwards exactly once to the plain context that was current when the tree was built, with the same arguments "
                  "(ownership). Bounded (harness, random trees of depth <= 3): the composition over the whole tree, waiting patterns.",
    "level_note": "Not counted as proved: whole-tree composition and waiting liveness (bounded harness; scope in evidence).",
    "design_ref": "DESIGN.md section 5 (C05)",
    "technique": "contract-based deductive verification of start_component / _init_component / _start_component (pyvc + z3) + bounded model-based harness over random component trees",
    "explanation": "tree-built-at-most-once-and-started-at-most-once-after-it-was-built, prepare-completes-before-children-are-spawned, "
                   "every-processed-child-spawned-exactly-once, start-only-after-all-children-were-spawned-and-awaited; tree-level order by the harness",
}
PROPS["C07"] = {
    "functions": ["_component.start_component", "_component._init_component", "_component._start_component",
                  "_component._watch_component_tree_startup", "_utils.coalesce_exceptions", "lemma:frame"],
    "trusted": COMP_TRUSTED, "assumptions": COMP_ASSUME,
    "undecided": ["'no part of the tree is still running once start_component has raised' rests on A-TG2 (task group exit waits for / cancels all "
                  "children) - bounded harness", "timeout: that the watchdog's TimeoutError cancels the startup and comes out of start_component unchanged rests on A-TG2 and coalesce_exceptions - bounded harness"],
    "level": "other",
    "level_text": "Partly proved, partly bounded. Proved: the ComponentStartError created in _init_component / _start_component names the phase "
                  "that just failed ('creating' / 'preparing' / 'starting'), this component's path and its resolved class, is raised from the original "
                  "exception, and only for an Exception (cancellation and other BaseExceptions pass through unchanged so that the task group sees one "
                  "failure); after a failing prepare() no child is spawned and start() is never called; after a failing child the parent's start() is "
                  "never called (start only after the group exited normally); start_component spawns the watchdog before anything is started iff a "
                  "timeout is given and cancels it only after success; the watchdog sleeps exactly once for the given timeout and then always raises "
                  "TimeoutError (never returns). Bounded: sibling cancellation, nothing running afterwards, the timeout coming out unchanged, teardown "
                  "order of what was registered (C01).",
    "level_note": "Not counted as proved: task-group level behaviour (siblings stopped, nothing runs afterwards), timeout.",
    "design_ref": "DESIGN.md section 5 (C07)",
    "technique": "contract-based deductive verification of the error mapping in _init_component / _start_component / start_component (pyvc + z3) + bounded harness with injected failures",
    "explanation": "start-error-names-the-failing-phase-path-and-class, start-error-only-for-an-Exception, creating-error-names-phase-path-and-the-resolved-class, "
                   "own-start-error-is-raised-from-the-original-exception",
}
PROPS["C06"] = {
    "functions": ["_component.ComponentContext.get_resource", "_component.ComponentContext.get_resource.<lambda@0>",
                  "_event.Signal.wait_event", "_event.wait_event", "_event.stream_events", "_event.stream_events.filter_events",
                  "_context.Context.get_resource", "_context.Context.add_resource", "_context.Context.add_resource_factory",
                  "_event.Signal.dispatch", "_event.Signal._subscribe"],
    "clauses": lambda q, o: q.startswith("_component.") or q.startswith("_event.") or any(
        t in o["id"] for t in ("event", "announces", "resources:", "canary", "G-mono", "ResourceNotFound", "never-raises-on-a-hit")),
    "trusted": COMP_TRUSTED, "assumptions": COMP_ASSUME + [
        "the miss is atomic with the raise: Context.get_resource raises ResourceNotFound without suspending when neither table has the key (pure_when split, proved)",
        "publication inserts into the table before dispatching the event (event:* clauses of add_resource/add_resource_factory, proved)"],
    "undecided": ["'as soon as' (promptness) and the stream wrappers stream_events/wait_event: bounded harness",
                  "known finding F9: a burst of >= 50 publications without a checkpoint overflows the waiter's queue"],
    "level": "other",
    "level_text": "Partly proved, partly bounded. Proved: ComponentContext.get_resource with optional=True performs exactly one delegated lookup "
                  "(optional=True) and never waits; otherwise it looks up, and only after a ResourceNotFound miss - with no suspension point or foreign "
                  "call in between - calls wait_event on the backing context's resource_added signal with a filter that accepts exactly the events "
                  "announcing the requested name and a type tuple containing the requested type (the lambda is verified as its own function), then "
                  "looks up again and returns that result; add_resource/add_resource_factory insert before they dispatch, dispatch makes one send attempt "
                  "per subscriber, _subscribe removes exactly its own stream; Signal.wait_event delegates to wait_event([self], filter), which enters "
                  "stream_events before its first suspension, and stream_events - verified up to its yield, for every sequence of bound signals - has "
                  "subscribed this call's new send stream to every given signal without passing a suspension point or calling foreign code. "
                  "filter_events yields exactly the received events that the filter accepts (or all without a filter), each once, in order. "
                  "Bounded: the exit half of stream_events.",
    "level_note": "Not counted as proved: the exit half of stream_events (bounded: C10 and component harness). KNOWN-FINDING F9.",
    "design_ref": "DESIGN.md section 5 (C06)",
    "technique": "contract-based deductive verification of ComponentContext.get_resource, its filter lambda, the publishing side and Signal.dispatch/_subscribe (pyvc + z3) + bounded harness",
    "explanation": "required:no-suspension-between-the-miss-and-the-subscription, required:waits-with-the-name-and-type-filter, accepts-exactly-name-and-type-matches, "
                   "optional:one-delegated-lookup-never-waits, returns-the-result-of-the-last-delegated-lookup",
}
PROPS["C14"] = {
    "functions": ["_component._init_component", "_component.start_component", "_component.ComponentContext.add_resource",
                  "_component.ComponentContext.add_resource_factory", "_component.ComponentContext.__init__",
                  "_utils.PluginContainer.resolve", "_utils.merge_config", "_component.Component.add_component", "lemma:frame"],
    "trusted": COMP_TRUSTED, "assumptions": COMP_ASSUME + ["deep merge = C17 (merge_config contract, proved)",
                                                           "Component.add_component stores {'type': type or alias, **config} under the alias (proved: AddComponent contract)"],
    "undecided": ["'equal configurations yield equal trees' (determinism) - bounded harness (second start from the same object)"],
    "level": "other",
    "level_text": "Partly proved, partly bounded. Proved: _init_component merges merge_config(component._child_components, external `components`) in that "
                  "order (external overrides hard-coded, C17), and for every child of the merged mapping calls itself with the child path "
                  "parent.alias, a private copy of the child's options whose type defaults to the alias and drops a '/name' suffix, and the default "
                  "resource name taken from that child's own alias only ('default' without a '/'); it writes only its own private config argument and "
                  "dictionaries it allocated (so, by induction from start_component's private root copy, the caller's configuration is never written); "
                  "PluginContainer.resolve: non-string returned as is, 'module:attr' resolved as a reference only, entry point names cached / loaded "
                  "once / LookupError; ComponentContext.add_resource/_factory remap the name 'default' to the component's default resource name exactly "
                  "while the component state is `starting` and pass everything else through; Component.add_component refuses (RuntimeError / "
                  "TypeError / ValueError) before writing and otherwise stores {'type': type or alias, **config} under the alias only. Bounded: whole-tree equality.",
    "level_note": "Not counted as proved: equality of whole trees / determinism (bounded harness). fixed: F3.",
    "design_ref": "DESIGN.md section 5 (C14)",
    "technique": "contract-based deductive verification of _init_component, PluginContainer.resolve and the ComponentContext add wrappers (pyvc + z3) + bounded harness",
    "explanation": "merge:hard-coded-children-first-external-configuration-overrides, child:* clauses, writes-only-its-own-config-argument-and-dictionaries-it-allocated, "
                   "default-name-remapped-only-while-starting, never-writes-the-callers-config",
}


PROPS["C15"] = {
    "functions": ["_runner._run_application_async", "_runner.run_application", "_runner.handle_signals", "_context.start_service_task", "_context.Context.__aexit__",
                  "_context.Context._run_teardown_callbacks", "_context.Context.__aenter__", "lemma:frame"],
    "trusted": COMP_TRUSTED + LIFE_TRUSTED + [
        "start_component contract (verified under C05/C07/C14)", "Context.start_service_task contract (verified under C08)",
        "A-SIG0 the signal handler task cannot cancel the startup scope before start_service_task() has returned",
        "A-PURE-EXT platform.system / functools.partial / get_cancelled_exc_class are pure", "A-CS CancelScope", "A-EV anyio.Event",
        "anyio.run returns the coroutine's result / propagates its exception; sys.exit(n) raises SystemExit(n) (run_application's last statement, bounded harness)"],
    "assumptions": COMP_ASSUME + [
        "handle_signals is verified up to A-SIGRECV (anyio.open_signal_receiver installs the handlers on entry and yields the received signal numbers): "
        "started() is reported only after the receiver is installed, the first signal cancels the startup scope and sets the shutdown event in one atomic "
        "segment; run_application is verified up to the assumed behaviour of anyio.run (returns the coroutine's result / propagates its exception) and sys.exit",
        "reading a local variable that was never bound is not modelled (UnboundLocalError); excluded here by A-SIG0"],
    "undecided": ["OS-level signal delivery (A-SIGRECV) - bounded harness"],
    "level": "other",
    "level_text": "Partly proved, partly bounded. Proved on the real body of _run_application_async, all paths: one root context is entered, the signal "
                  "handler service task is started inside it before start_component(component_class, config, timeout=start_timeout); once the root context is "
                  "entered every way out (return or exception) goes through its __aexit__ and nothing else happens afterwards - and __aexit__ / "
                  "_run_teardown_callbacks are verified (C01/C13) to run every registered teardown callback exactly once in reverse order; the status is 1 when "
                  "startup raised (any BaseException, TimeoutError, cancellation), for a CLI component None -> 0, an int (bool included) in 0..127 -> itself, "
                  "everything else -> 1, a run() exception reaches the root context's exit unchanged and propagates; a non-CLI application returns 0 and only "
                  "after the shutdown event was set. Bounded (harness, 1000/25000 scenarios in worker processes): signals, run_application's "
                  "SystemExit mapping, service-task crashes, both backends.",
    "level_note": "Not counted as proved: signal handling, run_application wrapper (bounded).",
    "design_ref": "DESIGN.md section 5 (C15)",
    "technique": "contract-based deductive verification of _run_application_async (pyvc + z3) over the verified contracts of Context.__aexit__/_run_teardown_callbacks/start_component + bounded harness running real applications",
    "explanation": "root-context-left-through-aexit-after-everything-else, cli-status:None->0,int-in-0..127->itself,anything-else->1, "
                   "startup-failure-timeout-or-cancellation-gives-status-1, non-CLI:returns-0-only-after-the-shutdown-event",
}
PROPS["C19"] = {
    "functions": ["_context.inject", "_context.inject.sync_wrapper", "_context.inject.async_wrapper",
                  "_context.inject.resolve_resources", "_context.inject.resolve_resources_async", "_context.inject.resolve_forward_refs",
                  "_context.Context.get_resource_nowait", "_context.Context.get_resource", "_context.current_context", "lemma:frame"],
    "clauses": lambda q, o: q.startswith("_context.inject") or q.startswith("lemma") or q.endswith("current_context") or any(
        t in o["id"] for t in ("canary", "ResourceNotFound", "never-raises-on-a-hit", "optional", "returns", "result")),
    "trusted": CTX_TRUSTED + ["A-INJ the closure cells of one inject() activation are referenced only by its own closures (census)",
                              "A-TYPING get_type_hints / get_origin / get_args are side-effect free",
                              "lemma:frame (proved every run)"],
    "assumptions": CTX_ASSUME + [
        "inspect.signature(func).parameters is a mapping name -> Parameter created by that call; iterating it has no effect (AX-ITER-PURE); "
        "A-WRAPS: the decorator functools.wraps(func) on the nested wrappers returns the decorated function itself (pyvc does not apply decorators of nested defs)",
        "which class an annotation denotes (typing introspection) is trusted; the marker's cls/optional fields are what resolve_forward_refs stored"],
    "undecided": ["which class a string / PEP 604 annotation denotes (typing introspection, A-TYPING) - bounded harness"],
    "level": "other",
    "level_text": "Partly proved, partly bounded. Proved on the real closures: resolve_resources / resolve_resources_async resolve forward references first iff "
                  "not yet resolved, then perform for every marker of the decorated function exactly one lookup - get_resource_nowait resp. get_resource - in "
                  "the context current at call time with (marker.cls, marker.name) and optional=True iff the marker is optional, store that lookup's result "
                  "under the parameter's name in a private dict and return a dict with exactly the markers' parameter names; any exception of a lookup "
                  "(ResourceNotFound for a missing non-optional resource) propagates before the wrapper can call the function; resolve_forward_refs sets "
                  "the resolved flag only when resolution completed; sync_wrapper / async_wrapper resolve exactly once and first, enter the original "
                  "function at most once and only after a successful resolution, pass the caller's positional and keyword arguments unchanged plus the "
                  "resolved dict, and return its result; inject() itself records exactly the parameters whose default is a resource() marker (under their "
                  "names), raises TypeError exactly for positional-only or unannotated markers and for the bare `resource` function, and returns the async "
                  "wrapper for coroutine functions, the sync wrapper otherwise, the function itself without markers. The lookup contracts themselves are C03/C04.",
    "level_note": "Not counted as proved: annotation resolution by typing.get_type_hints (bounded harness: 2204/42072 scenarios).",
    "design_ref": "DESIGN.md section 5 (C19)",
    "technique": "contract-based deductive verification of inject()'s resolver closures (pyvc + z3) over the verified lookup contracts + bounded differential harness",
    "explanation": "lookup:in-the-context-current-at-call-time, lookup:annotated-type-and-marker-name, lookup:optional-iff-the-marker-is-optional, "
                   "stores-this-lookups-result-under-this-parameter-name, returns-one-entry-per-marker, flag-unchanged-when-resolution-fails",
}


PROPS["C16"] = {
    "functions": ["_cli.run", "_utils.merge_config"],
    "trusted": ["A-RE re.split is a deterministic function of (pattern, string) returning a non-empty list of strings",
                "A-ENV os.getenv returns None or a string", "yaml.load(stream, AsphaltLoader) returns the parsed document (PyYAML; the three custom "
                "constructors are one-line wrappers around os.getenv / Path.read_text / Path.read_bytes - bounded harness)",
                "click delivers the parsed command line as (configfile, service, set_) and turns ClickException into a non-zero exit",
                "opaque strings: str.split / str.replace are uninterpreted deterministic functions (the escaped-dot regular expression itself is "
                "not interpreted: the contract pins which pattern and which replacement are applied, the harness checks their effect)",
                "A-BADARG merge_config raises before writing when given a non-dict", "pyvc dict/list model"],
    "assumptions": ["Python semantics as encoded by pyvc (DESIGN 2.4); termination not proved",
                    "the nested descent of --set through existing sections (section.setdefault(part, {})) is checked by the bounded harness only",
                    "deep merge = C17 (merge_config contract, proved)"],
    "undecided": ["what the escaped-dot regular expression matches (string theory; bounded harness)", "!Env / !TextFile / !BinaryFile constructors (bounded harness)"],
    "level": "other",
    "level_text": "Partly proved, partly bounded. Proved on the real body of the `run` command, all paths: every file's document is merged over the "
                  "configuration accumulated so far, in the order given (merge_config(config, document), C17); for every --set the key is split with "
                  "re.split at the unescaped-dot pattern and every part has `\\\\.` replaced by `.`, and the YAML-parsed value is stored under the last part; "
                  "the service section merged last is: error when no service is defined, else the one named by --service, else by ASPHALT_SERVICE "
                  "(error if undefined), else the only one, else `default`, else error - merged over the remaining top-level configuration "
                  "(merge_config(config, section)); run_application is called exactly once, last, and never when the command fails. Bounded "
                  "(differential harness against an independent reference model, 1725 / 40225 command lines): effect of the regular expression, "
                  "nested --set paths, YAML typing of values, custom tags, click integration.",
    "level_note": "Not counted as proved: regular-expression semantics, nested --set descent, YAML tags (bounded).",
    "design_ref": "DESIGN.md section 5 (C16)",
    "technique": "contract-based deductive verification of the `asphalt run` command body and merge_config (pyvc + z3) + bounded differential harness through click's CliRunner",
    "explanation": "files:each-document-merged-in-the-order-given, merge:over-the-configuration-accumulated-so-far, set:key-split-at-unescaped-dots-and-unescaped, "
                   "service:named-else-the-only-one-else-default, starts-the-application-exactly-once, a-failing-command-starts-nothing",
}
