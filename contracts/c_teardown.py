"""C01: teardown callbacks - ghost registration tokens, stack invariant, the teardown loop."""
import z3
from pyvc.smt import *
from pyvc.state import *
from pyvc.specs import FnSpec, Frame, LoopCtx
from pyvc import roles
from .c_context import *
from .c_context_tables import owner, OWN_T

AII = z3.ArraySort(I, AI)      # per list address: Int -> Int

TD_COMPS = ("g:td_tok", "g:td_pos", "g:td_cnt", "g:td_reg")


def tok_at(H, t, i):
    return z3.Select(z3.Select(H.g("g:td_tok"), t), i)


def pos(H, t, k):
    return z3.Select(z3.Select(H.g("g:td_pos"), t), k)


def cnt(H, t, k):
    return z3.Select(z3.Select(H.g("g:td_cnt"), t), k)


def reg_(H, t):
    return z3.Select(H.g("g:td_reg"), t)


def td_wf(H, t):
    """INV_td for the teardown list at address t:
       (a) every list slot holds a registered, pending (never invoked) token that knows its slot
       (b) tokens increase along the list (registration order = list order)
       (c) every registered token is either pending in the list or has been invoked exactly once"""
    i = z3.Const("i!td", I)
    j = z3.Const("j!td", I)
    k = z3.Const("k!td", I)
    n = H.l_len(t)
    return z3.And(
        n >= 0, reg_(H, t) >= 0,
        z3.ForAll([i], z3.Implies(z3.And(0 <= i, i < n),
                                  z3.And(0 <= tok_at(H, t, i), tok_at(H, t, i) < reg_(H, t),
                                         pos(H, t, tok_at(H, t, i)) == i, cnt(H, t, tok_at(H, t, i)) == 0)),
                  patterns=[tok_at(H, t, i)]),
        z3.ForAll([i, j], z3.Implies(z3.And(0 <= i, i < j, j < n), tok_at(H, t, i) < tok_at(H, t, j)),
                  patterns=[z3.MultiPattern(tok_at(H, t, i), tok_at(H, t, j))]),
        z3.ForAll([k], z3.Implies(z3.And(0 <= k, k < reg_(H, t)),
                                  z3.Or(z3.And(pos(H, t, k) == -1, cnt(H, t, k) == 1),
                                        z3.And(0 <= pos(H, t, k), pos(H, t, k) < n, tok_at(H, t, pos(H, t, k)) == k, cnt(H, t, k) == 0))),
                  patterns=[pos(H, t, k), cnt(H, t, k)]),
    )


def inv_td(H):
    """I-td: the teardown list of every initialised context satisfies INV_td"""
    x = z3.Const("x!itd", I)
    return z3.ForAll([x], z3.Implies(is_ctx(H, x), td_wf(H, T(H, x))), patterns=[H.fld("_teardown_callbacks", x)])


def td_append_only(old, new, t):
    """between old and new the list at t changed only by registrations (append + fresh larger tokens)"""
    i = z3.Const("i!tdr", I)
    k = z3.Const("k!tdr", I)
    n0 = old.l_len(t)
    return z3.And(
        new.l_len(t) >= n0, reg_(new, t) >= reg_(old, t), reg_(new, t) - reg_(old, t) == new.l_len(t) - n0,
        z3.ForAll([i], z3.Implies(z3.And(0 <= i, i < n0), z3.And(new.l_item(t, i) == old.l_item(t, i), tok_at(new, t, i) == tok_at(old, t, i))),
                  patterns=[new.l_item(t, i), tok_at(new, t, i)]),
        z3.ForAll([i], z3.Implies(z3.And(n0 <= i, i < new.l_len(t)), tok_at(new, t, i) >= reg_(old, t)), patterns=[tok_at(new, t, i)]),
        z3.ForAll([k], z3.Implies(z3.And(0 <= k, k < reg_(old, t)), z3.And(pos(new, t, k) == pos(old, t, k), cnt(new, t, k) == cnt(old, t, k))),
                  patterns=[pos(new, t, k), cnt(new, t, k)]),
    )


def g_td(old, new):
    """G-td: a context's teardown list changes only by registration, except while that context is closing
    (then its own teardown loop pops and invokes)"""
    x = z3.Const("x!gtd", I)
    return z3.ForAll([x], z3.Implies(z3.And(is_ctx(old, x), state_of(old, x) != S_CLOSING), td_append_only(old, new, T(old, x))),
                     patterns=[old.fld("_teardown_callbacks", x)])


class AddTeardownCallbackTokens:
    """ghost part of add_teardown_callback: every successful registration gets the next token"""

    @staticmethod
    def ghost_exit(eng, st, kind):
        if kind != "return":
            return
        c = Val.a(st.env["self"].t)
        t = Val.a(st.fld("_teardown_callbacks", c))
        n = st.l_len(t) - 1                      # slot just appended
        H = st.heap
        r = z3.Select(H["g:td_reg"], t)
        st.heap["g:td_tok"] = z3.Store(H["g:td_tok"], t, z3.Store(z3.Select(H["g:td_tok"], t), n, r))
        st.heap["g:td_pos"] = z3.Store(H["g:td_pos"], t, z3.Store(z3.Select(H["g:td_pos"], t), r, n))
        st.heap["g:td_cnt"] = z3.Store(H["g:td_cnt"], t, z3.Store(z3.Select(H["g:td_cnt"], t), r, z3.IntVal(0)))
        st.heap["g:td_reg"] = z3.Store(H["g:td_reg"], t, r + 1)

    @staticmethod
    def ensures(F):
        c = F.addr("self")
        t = T(F.old, c)
        n = F.old.l_len(t)
        r = reg_(F.old, t)
        i = z3.Const("i!atk", I)
        x = z3.Const("x!atk", I)
        return [
            ("token:next-token-registered", z3.And(reg_(F.new, t) == r + 1, tok_at(F.new, t, n) == r, pos(F.new, t, r) == n, cnt(F.new, t, r) == 0)),
            ("token:others-kept", z3.And(
                z3.ForAll([i], z3.Implies(i != n, tok_at(F.new, t, i) == tok_at(F.old, t, i)), patterns=[tok_at(F.new, t, i)]),
                z3.ForAll([i], z3.Implies(i != r, z3.And(pos(F.new, t, i) == pos(F.old, t, i), cnt(F.new, t, i) == cnt(F.old, t, i))),
                          patterns=[pos(F.new, t, i), cnt(F.new, t, i)]))),
            ("token:other-lists-untouched", z3.And(*[z3.ForAll([x], z3.Implies(x != t, F.same_at(cmp_, x)), patterns=[z3.Select(F.new.h(cmp_), x)])
                                                   for cmp_ in TD_COMPS])),
        ]


class RunTeardownCallbacks(FnSpec):
    """C01: every registered callback is invoked exactly once, the most recently registered pending one first (also those
    registered during teardown), with the block's exception iff pass_exception, its awaitable awaited before the next one;
    a raising callback (any BaseException) never stops the loop; all exceptions are re-raised in one group afterwards."""
    qual = "_context.Context._run_teardown_callbacks"
    properties = ("C01", "C08", "C15")
    param_types = {"exc_type": ANY, "original_exception": ANY, "exc_tb": ANY}
    modifies = "rely"
    suspends = True
    uses_invariants = ("I-td:teardown-lists-are-token-stacks", "G-td:teardown-lists-change-by-registration-only")

    def requires(self, F):
        c = F.addr("self")
        return [("initialised-context", is_ctx(F.old, c)),
                ("teardown-has-begun", state_of(F.old, c) == S_CLOSING)]

    def init_ghost(self, eng, st):
        st.ghost["exs_len"] = z3.IntVal(0)
        st.ghost["exs_items"] = z3.K(I, VNone)
        st.ghost["inflight"] = VNone
        st.ghost["cur_tok"] = z3.IntVal(-1)
        st.ghost["cur_cb"] = VNone
        st.ghost["cur_flag"] = VNone

    def extra_rely(self, eng, st):
        """A-TD1 (assumed): no second teardown loop runs on this context; everybody else only registers"""
        c = Val.a(st.env["self"].t)
        t = Val.a(st.fld("_teardown_callbacks", c))
        st.uses.add("A-TD1")
        return [("A-TD1:own-list-append-only", lambda old, new: z3.And(td_append_only(old, new, t), state_of(new, c) == state_of(old, c)))]

    # ---- monitors
    def on_event(self, eng, st, event):
        if event[0] != "pop":
            return
        lst, v = event[1], event[2]
        c = Val.a(st.env["self"].t)
        t = Val.a(st.fld("_teardown_callbacks", c))
        # a pop of some other list is not a teardown step
        if not eng.mentions(lst.t, t) and not lst.t.eq(st.fld("_teardown_callbacks", c)):
            return
        n = st.l_len(t)                           # length after the pop = popped index
        H = HeapView(st.heap)
        eng.oblige(st, "post", "one-at-a-time:previous-awaitable-was-awaited", st.ghost["inflight"] == VNone, "pop")
        tok = tok_at(H, t, n)
        st.ghost["cur_tok"] = tok
        st.ghost["cur_cb"] = Val.fst(v.t)
        st.ghost["cur_flag"] = Val.snd(v.t)
        st.heap["g:td_pos"] = z3.Store(st.heap["g:td_pos"], t, z3.Store(z3.Select(st.heap["g:td_pos"], t), tok, z3.IntVal(-1)))

    def on_opaque_call(self, eng, st, f, args, anchor):
        c = Val.a(st.env["self"].t)
        t = Val.a(st.fld("_teardown_callbacks", c))
        H = HeapView(st.heap)
        tok = st.ghost["cur_tok"]
        k = z3.Const("k!oc", I)
        orig = st.env["original_exception"].t
        flag = eng.truth(st, SV(st.ghost["cur_flag"], ANY))
        eng.oblige(st, "post", "invokes-the-popped-callback", f.t == st.ghost["cur_cb"], anchor)
        eng.oblige(st, "post", "exactly-once:not-invoked-before", cnt(H, t, tok) == 0, anchor)
        eng.oblige(st, "post", "lifo:largest-pending-token",
                   z3.ForAll([k], z3.Implies(z3.And(0 <= k, k < reg_(H, t), cnt(H, t, k) == 0), k <= tok)), anchor)
        if len(args) == 1:
            eng.oblige(st, "post", "arg-is-block-exception", z3.And(flag, args[0].t == orig), anchor)
        elif len(args) == 0:
            eng.oblige(st, "post", "no-arg-without-pass_exception", z3.Not(flag), anchor)
        else:
            eng.oblige(st, "post", "callback-arity", z3.BoolVal(False), anchor)
        st.heap["g:td_cnt"] = z3.Store(st.heap["g:td_cnt"], t, z3.Store(z3.Select(st.heap["g:td_cnt"], t), tok, cnt(H, t, tok) + 1))

    def after_opaque_call(self, eng, st_before, st_after, f, args, result, exc, anchor):
        if exc is not None:
            self._log_exc(st_after, exc)
            st_after.ghost["inflight"] = VNone
        else:
            st_after.ghost["inflight"] = z3.If(isawaitable_u(result.t), result.t, VNone)

    def on_await(self, eng, st, awaited, anchor):
        eng.oblige(st, "post", "awaits-the-callbacks-awaitable", awaited.t == st.ghost["inflight"], anchor)

    def after_await(self, eng, st_before, st_after, awaited, result, exc, anchor):
        st_after.ghost["inflight"] = VNone
        if exc is not None:
            self._log_exc(st_after, exc)

    def _log_exc(self, st, exc):
        n = st.ghost["exs_len"]
        st.ghost["exs_items"] = z3.Store(st.ghost["exs_items"], n, exc.t)
        st.ghost["exs_len"] = n + 1

    # ---- loop 0: while self._teardown_callbacks
    def _loop0(self, L):
        st = L.cur_st
        c = Val.a(L.v("self").t)
        t = T(L.entry, c)
        C, E = L.cur, L.entry
        fn = L.eng.fi.node
        exs_name = roles.appended_in_handler(fn, "BaseException")
        exs = L.v(exs_name)
        la = Val.a(exs.t)
        i = z3.Const("i!l0", I)
        return [
            ("stack-invariant", td_wf(C, t)),
            ("no-awaitable-in-flight", st.ghost["inflight"] == VNone),
            ("caught-exceptions-are-exactly-those-raised", z3.And(
                C.l_len(la) == st.ghost["exs_len"], st.ghost["exs_len"] >= 0,
                z3.ForAll([i], z3.Implies(z3.And(0 <= i, i < st.ghost["exs_len"]), C.l_item(la, i) == z3.Select(st.ghost["exs_items"], i)),
                          patterns=[C.l_item(la, i)]))),
            ("still-closing", z3.And(state_of(C, c) == S_CLOSING, is_ctx(C, c), C.fld("_teardown_callbacks", c) == E.fld("_teardown_callbacks", c))),
            ("exception-list-is-local", z3.And(Val.is_ref(exs.t), la != t, 0 <= la, la < C.alloc, owner(C, la) == con("own:nobody"))),
        ]

    def havoc_ghost(self, eng, st):
        """loop cut: ghost locals written in the body are forgotten"""
        st.ghost["exs_len"] = fresh("exs_len", I)
        st.ghost["exs_items"] = fresh("exs_items", IV)
        st.ghost["inflight"] = fresh("inflight")
        st.ghost["cur_tok"] = fresh("cur_tok", I)
        st.ghost["cur_cb"] = fresh("cur_cb")
        st.ghost["cur_flag"] = fresh("cur_flag")

    def ensures(self, F):
        c = F.addr("self")
        t = T(F.old, c)
        k = z3.Const("k!rt", I)
        return [
            ("all-callbacks-invoked-exactly-once", z3.And(F.new.l_len(t) == 0,
                                                          z3.ForAll([k], z3.Implies(z3.And(0 <= k, k < reg_(F.new, t)), cnt(F.new, t, k) == 1),
                                                                    patterns=[cnt(F.new, t, k)]))),
            ("no-callback-raised", F.new_st.ghost["exs_len"] == 0) if "exs_len" in F.new_st.ghost else ("no-callback-raised", z3.BoolVal(True)),
        ]

    def raises(self, F):
        c = F.addr("self")
        t = T(F.old, c)
        k = z3.Const("k!rt", I)
        i = z3.Const("i!rt", I)
        e = Val.a(F.exc.t)
        out = [
            ("raised-only-after-the-last-callback", z3.And(F.new.l_len(t) == 0,
                                                           z3.ForAll([k], z3.Implies(z3.And(0 <= k, k < reg_(F.new, t)), cnt(F.new, t, k) == 1),
                                                                     patterns=[cnt(F.new, t, k)]))),
            ("raises-one-exception-group", z3.And(F.new.fld("__class__", e) == con("BaseExceptionGroup"), e >= F.old.alloc)),
            ("cause-is-the-block-exception", F.new.fld("__cause__", e) == F.t("original_exception")),
        ]
        if "exs_len" in F.new_st.ghost:
            la = Val.a(F.new.fld("exceptions", e))
            g = F.new_st.ghost
            out.append(("group-members-are-exactly-the-callbacks-exceptions", z3.And(
                g["exs_len"] > 0, F.new.l_len(la) == g["exs_len"],
                z3.ForAll([i], z3.Implies(z3.And(0 <= i, i < g["exs_len"]), F.new.l_item(la, i) == z3.Select(g["exs_items"], i)),
                          patterns=[F.new.l_item(la, i)]))))
        return out

    def __init__(self):
        self.loops = {0: self._loop0}


def register(reg):
    reg.ghost_comps.update({"g:td_tok": AII, "g:td_pos": AII, "g:td_cnt": AII, "g:td_reg": AI})
    reg.invariants.append(("I-td:teardown-lists-are-token-stacks", inv_td,
                           ("g:ctx_init", "fld:_teardown_callbacks", "l_len") + TD_COMPS, {"lazy": True}))
    reg.guarantees.append(("G-td:teardown-lists-change-by-registration-only", g_td,
                           ("g:ctx_init", "fld:_teardown_callbacks", "fld:_state", "l_len", "l_item") + TD_COMPS, {"lazy": True}))
    reg.exc_arg_names["BaseExceptionGroup"] = ["message", "exceptions"]
    reg.exc_arg_names["ExceptionGroup"] = ["message", "exceptions"]
    reg.exc_field_types["exceptions"] = LIST(TEXC)
    reg.assumptions_text["A-TD1"] = ("the context-manager protocol calls Context.__aexit__ once: no second teardown loop pops the same "
                                     "context's callback list concurrently; other code only registers callbacks on it")
    reg.add(RunTeardownCallbacks)
    # token bookkeeping of add_teardown_callback
    atc = reg.specs["_context.Context.add_teardown_callback"]
    atc.modifies = frozenset(set(atc.modifies) | set(TD_COMPS))
    base_ensures = atc.ensures
    atc.ensures = lambda F, _b=base_ensures: list(_b(F)) + AddTeardownCallbackTokens.ensures(F)
    base_raises = atc.raises
    atc.raises = lambda F, _b=base_raises: list(_b(F)) + [("token:unchanged", F.same(*TD_COMPS))]
    atc.ghost_exit = AddTeardownCallbackTokens.ghost_exit
    atc.uses_invariants = ("I-td:teardown-lists-are-token-stacks",)
    ar = reg.specs["_context.Context.add_resource"]
    ar.modifies = frozenset(set(ar.modifies) | set(TD_COMPS))
    ar.uses_invariants = ("I-td:teardown-lists-are-token-stacks",)
