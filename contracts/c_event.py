"""Contracts for asphalt/core/_event.py (Signal binding and dispatch)."""
import ast
import z3
from pyvc.smt import *
from pyvc.state import *
from pyvc.specs import FnSpec, Frame, LoopCtx

BS = "_event.bound_signals"
SIGNAL_FIELDS = ("event_class", "_instance", "_topic", "_send_streams")


def bs_addr(reg):
    return Val.a(reg.global_ref(BS))


def bound_has(H, reg, inst, topic):
    """instance `inst` has a bound signal for attribute `topic` in heap H"""
    b = bs_addr(reg)
    inner = H.d_get(b, inst)
    return z3.And(H.d_has(b, inst), H.d_has(Val.a(inner), topic))


def bound_sig(H, reg, inst, topic):
    """the bound signal (a Val) of (inst, topic) in heap H"""
    b = bs_addr(reg)
    return H.d_get(Val.a(H.d_get(b, inst)), topic)


class SignalGet(FnSpec):
    """C11: Signal.__get__ - one bound signal per (instance, attribute); defined once; weakly bound."""
    qual = "_event.Signal.__get__"
    properties = ("C11", "C18", "C10")
    param_types = {"self": INST("Signal"), "instance": ANY, "owner": ANY}
    ret_type = INST("Signal")
    modifies = frozenset({"d_has", "d_get", "d_len", "l_len", "l_item", "fld:event_class", "fld:_instance", "fld:_topic",
                          "fld:_send_streams", "set:_instance", "fld:__class__", "g:owner"})
    may_raise = False
    check_guarantee = True

    def requires(self, F):
        # the declaration was named by __set_name__ (it is a class attribute); its topic is a string
        inst = F.t("instance")
        me = F.addr("self")
        return [("declaration-has-topic", Val.is_str(F.old.fld("_topic", me))),
                # descriptor wiring: for Context objects the attribute `resource_added` is Context.resource_added
                ("context-resource_added-is-a-ResourceEvent-signal",
                 z3.Implies(z3.And(Val.is_ref(inst), subcls(F.old.fld("__class__", Val.a(inst)), con("Context")),
                                   F.old.fld("_topic", me) == sid("resource_added")),
                            F.old.fld("event_class", me) == con("ResourceEvent")))]

    def ensures(self, F):
        reg = F.eng.reg
        me, inst, r = F.addr("self"), F.t("instance"), F.result.t
        topic = F.old.fld("_topic", me)
        b = bs_addr(reg)
        ra = Val.a(r)
        was = bound_has(F.old, reg, inst, topic)
        x = z3.Const("x!sg", I)
        k = z3.Const("k!sg", Val)
        k2 = z3.Const("k2!sg", Val)
        inner_new = Val.a(F.new.d_get(b, inst))
        out = [
            ("class-access-returns-declaration", z3.Implies(inst == VNone, z3.And(r == F.t("self"), F.same("d_has", "d_get", "l_len", "fld:_send_streams", "set:_instance")))),
            ("is-table-entry", z3.Implies(inst != VNone, z3.And(bound_has(F.new, reg, inst, topic), r == bound_sig(F.new, reg, inst, topic)))),
            ("same-on-reaccess", z3.Implies(z3.And(inst != VNone, was),
                                            z3.And(r == bound_sig(F.old, reg, inst, topic),
                                                   F.same("d_has", "d_get", "d_len", "l_len", "l_item", "fld:event_class", "fld:_instance",
                                                          "fld:_topic", "fld:_send_streams", "set:_instance")))),
            ("fresh-on-first-access", z3.Implies(z3.And(inst != VNone, z3.Not(was)),
                                                 z3.And(F.fresh(r),
                                                        F.new.fld("event_class", ra) == F.old.fld("event_class", me),
                                                        F.new.fld("_topic", ra) == topic,
                                                        F.new.fld("_instance", ra) == Val.wref(inst),
                                                        F.new.isset("_instance", ra),
                                                        F.fresh(F.new.fld("_send_streams", ra)),
                                                        F.new.l_len(Val.a(F.new.fld("_send_streams", ra))) == 0))),
            # nothing else in the binding table changes: other instances keep their inner tables, other topics their signals
            ("other-instances-untouched", z3.And(
                z3.ForAll([k], z3.Implies(k != inst, F.new.d_has(b, k) == F.old.d_has(b, k)), patterns=[F.new.d_has(b, k)]),
                z3.ForAll([k], z3.Implies(k != inst, F.new.d_get(b, k) == F.old.d_get(b, k)), patterns=[F.new.d_get(b, k)]))),
            ("other-topics-untouched", z3.Implies(z3.And(inst != VNone, F.old.d_has(b, inst)),
                                                  z3.And(F.new.d_get(b, inst) == F.old.d_get(b, inst),
                                                         z3.ForAll([k2], z3.Implies(k2 != topic, F.new.d_has(inner_new, k2) == F.old.d_has(inner_new, k2)),
                                                                   patterns=[F.new.d_has(inner_new, k2)]),
                                                         z3.ForAll([k2], z3.Implies(k2 != topic, F.new.d_get(inner_new, k2) == F.old.d_get(inner_new, k2)),
                                                                   patterns=[F.new.d_get(inner_new, k2)])))),
            ("owner-tags", z3.And(z3.ForAll([x], z3.Implies(z3.And(x < F.old.alloc, z3.Not(was)), F.same_at("g:owner", x)), patterns=[z3.Select(F.new.h("g:owner"), x)]),
                                  z3.Implies(was, F.same("g:owner")),
                                  z3.Implies(z3.And(inst != VNone, z3.Not(was)), z3.And(z3.Select(F.new.g("g:owner"), inner_new) == Val.pair(inst, con("own:bound-signals")),
                                                                   z3.Select(F.new.g("g:owner"), Val.a(F.new.fld("_send_streams", ra))) == Val.pair(r, con("own:send-streams")))))),
            ("first-inner-table-is-fresh", z3.Implies(z3.And(inst != VNone, z3.Not(F.old.d_has(b, inst))),
                                                      z3.And(F.fresh(F.new.d_get(b, inst)),
                                                             z3.ForAll([k2], F.new.d_has(inner_new, k2) == (k2 == topic),
                                                                       patterns=[F.new.d_has(inner_new, k2)])))),
            # existing objects (other signals, other dicts, other lists) are untouched
        ]
        for c in ("d_has", "d_get"):
            # in terms of ownership: only dicts owned by the binding machinery are written
            out.append((f"only-binding-tables-written:{c}",
                        z3.ForAll([x], z3.Implies(z3.And(0 <= x, x < F.old.alloc,
                                                         Val.snd(z3.Select(F.old.g("g:owner"), x)) != con("own:bound-signals")),
                                                  F.same_at(c, x)), patterns=[z3.Select(F.new.h(c), x)])))
            out.append((f"old-dicts-untouched:{c}",
                        z3.ForAll([x], z3.Implies(z3.And(0 <= x, x < F.old.alloc, x != b,
                                                         z3.Not(z3.And(F.old.d_has(b, inst), x == Val.a(F.old.d_get(b, inst))))),
                                                  F.same_at(c, x)), patterns=[z3.Select(F.new.h(c), x)])))
        for c in ("l_len", "l_item", "fld:event_class", "fld:_instance", "fld:_topic", "fld:_send_streams", "set:_instance", "fld:__class__"):
            out.append((f"old-objects-untouched:{c}", z3.ForAll([x], z3.Implies(z3.And(x < F.old.alloc), F.same_at(c, x)),
                                                                patterns=[z3.Select(F.new.h(c), x)])))
        return out


    def ghost_exit(self, eng, st, kind):
        """ghost: the per-instance binding table belongs to the binding machinery (ownership tag)"""
        if kind != "return":
            return
        inst = st.env["instance"].t
        b = bs_addr(eng.reg)
        inner = Val.a(st.d_get(b, inst))
        sig = st.d_get(inner, st.fld("_topic", Val.a(st.env["self"].t)))
        lst = Val.a(st.fld("_send_streams", Val.a(sig)))
        if not eng.feasible(st.fork(inst != VNone)):
            return          # class-level access: nothing is bound
        if not any(e[0] == "new" and e[1] == "Signal" for e in st.trace):
            return          # re-access: nothing new to tag
        tagged = z3.Store(z3.Store(st.heap["g:owner"], inner, Val.pair(inst, con("own:bound-signals"))),
                          lst, Val.pair(sig, con("own:send-streams")))
        st.heap["g:owner"] = tagged

    def call_site_extra(self, F):
        # A-DESC (descriptor wiring, assumed): an instance reaches exactly one declaration per attribute name, and every
        # signal stored in the binding table was created by __get__ from that declaration - so also on re-access the
        # returned signal is bound and carries the declaration's event class (proved here only for first access)
        F.new_st.uses.add("A-DESC")
        F.new_st.uses.add("A-SIGWF")
        r = Val.a(F.result.t)
        from .c_dispatch import sig_wf
        return [("A-SIGWF", z3.Implies(F.t("instance") != VNone, sig_wf(F.new, r))),
                ("A-DESC", z3.Implies(F.t("instance") != VNone,
                                      z3.And(F.new.isset("_instance", r),
                                             F.new.fld("event_class", r) == F.old.fld("event_class", F.addr("self")),
                                             F.new.fld("_topic", r) == F.old.fld("_topic", F.addr("self")))))]


class CheckBound(FnSpec):
    qual = "_event.Signal._check_is_bound_signal"
    properties = ("C11",)
    param_types = {"self": INST("Signal")}
    modifies = frozenset()
    check_guarantee = False

    def ensures(self, F):
        return [("bound", F.old.isset("_instance", F.addr("self")))]

    def raises(self, F):
        return [("unbound-raises-UnboundSignal", z3.And(z3.Not(F.old.isset("_instance", F.addr("self"))), F.exc_is("UnboundSignal")))]


class Dispatch(FnSpec):
    """Signal.dispatch as seen by callers that publish resource events (C18); delivery details are C10."""
    qual = "_event.Signal.dispatch"
    properties = ("C10", "C18", "C11")
    param_types = {"self": INST("Signal"), "event": ANY}
    modifies = frozenset({"g:ev_len", "g:ev_item", "fld:source", "fld:topic", "fld:time", "g:q_len", "g:q_item", "g:warns"})
    may_raise = True
    verify = False       # verified in the C10 contract set (c_event_dispatch)

    def requires(self, F):
        return []

    def is_ok(self, F):
        me = F.addr("self")
        ev = F.t("event")
        return z3.And(F.old.isset("_instance", me), Val.is_ref(ev),
                      subcls(F.old.fld("__class__", Val.a(ev)), F.old.fld("event_class", me)))

    def ensures(self, F):
        me = F.addr("self")
        x = z3.Const("x!dp", I)
        n = F.old.g("g:ev_len")[me]
        return [
            ("accepted", self.is_ok(F)),
            ("one-event-recorded", z3.And(F.new.g("g:ev_len")[me] == n + 1,
                                          z3.Select(z3.Select(F.new.g("g:ev_item"), me), n) == F.t("event"))),
            ("other-signals-silent", z3.And(*[z3.ForAll([x], z3.Implies(x != me, z3.Select(F.new.g(c), x) == z3.Select(F.old.g(c), x)),
                                                        patterns=[z3.Select(F.new.g(c), x)]) for c in ("g:ev_len", "g:ev_item")])),
            ("stamps-only-the-event", z3.And(*[z3.ForAll([x], z3.Implies(x != Val.a(F.t("event")), F.same_at(c, x)),
                                                          patterns=[z3.Select(F.new.h(c), x)]) for c in ("fld:source", "fld:topic", "fld:time")])),
            ("earlier-events-kept", z3.ForAll([x], z3.Implies(z3.And(0 <= x, x < n),
                                                              z3.Select(z3.Select(F.new.g("g:ev_item"), me), x) == z3.Select(z3.Select(F.old.g("g:ev_item"), me), x)),
                                              patterns=[z3.Select(z3.Select(F.new.g("g:ev_item"), me), x)])),
        ]

    def raises(self, F):
        # rejected before anything is sent or recorded
        return [("rejected-only-if-unbound-or-wrong-class", z3.Not(self.is_ok(F))),
                ("nothing-recorded", F.same("g:ev_len", "g:ev_item", "g:q_len", "g:q_item", "g:warns"))]


def register(reg):
    reg.add(SignalGet)
    reg.add(CheckBound)
    reg.add(Dispatch)
    reg.schema["Signal"] = {"event_class": ANY, "_instance": ANY, "_topic": TSTR, "_send_streams": LIST(LIB("MemoryObjectSendStream"))}
    reg.schema["Event"] = {"source": ANY, "topic": ANY, "time": ANY}
    reg.unset_fields.add("_instance")
    reg.global_types[BS] = DICT(ANY, DICT(TSTR, INST("Signal")))
    reg.ghost_comps.update({"g:ev_len": AI, "g:ev_item": LI, "g:q_len": AI, "g:q_item": LI, "g:warns": I})
    reg.ext_calls["weakref.ref"] = lambda eng, st, pos, kw, node: [Res(st, SV(Val.wref(pos[0].t), ANY))]
    reg.immutable_fields |= {("Signal", "event_class"), ("Signal", "_topic"), ("Signal", "_instance"), ("Signal", "_send_streams")}

    reg.assumptions_text["A-DESC"] = ("descriptor wiring: an instance reaches exactly one Signal declaration per attribute name and only "
                                      "Signal.__get__ writes the binding table, so a re-accessed bound signal is bound and carries the "
                                      "declaration's event class and topic (proved for first access, assumed for re-access)")

    reg.assumptions_text["A-SIGWF"] = ("I_sig: the subscriber list of a bound signal holds pairwise distinct send streams whose send end is open; "
                                       "established by Signal._subscribe's verified bracket (append on entry, remove of the same stream on every exit) "
                                       "and stream_events unsubscribing before it closes the stream ends (bounded harness), assumed at dispatch call sites")

    # ghost event log: only grows (G-ev); unallocated signals have an empty log (I-ev0)
    def g_ev(old, new):
        x = z3.Const("x!gev", I)
        i = z3.Const("i!gev", I)
        return z3.And(
            z3.ForAll([x], z3.Select(new.g("g:ev_len"), x) >= z3.Select(old.g("g:ev_len"), x), patterns=[z3.Select(new.g("g:ev_len"), x)]),
            z3.ForAll([x, i], z3.Implies(z3.And(0 <= i, i < z3.Select(old.g("g:ev_len"), x)),
                                         z3.Select(z3.Select(new.g("g:ev_item"), x), i) == z3.Select(z3.Select(old.g("g:ev_item"), x), i)),
                      patterns=[z3.Select(z3.Select(new.g("g:ev_item"), x), i)]))
    reg.guarantees.append(("G-ev:event-log-only-grows", g_ev, ("g:ev_len", "g:ev_item")))

    def i_ev0(H):
        x = z3.Const("x!ev0", I)
        return z3.ForAll([x], z3.And(z3.Select(H.g("g:ev_len"), x) >= 0,
                                     z3.Implies(x >= H.alloc, z3.Select(H.g("g:ev_len"), x) == 0)), patterns=[z3.Select(H.g("g:ev_len"), x)])
    reg.invariants.append(("I-ev0:unallocated-signals-have-no-events", i_ev0, ("alloc", "g:ev_len")))

    def i_bs(H, reg=reg):
        """I-bs: the per-instance binding tables are allocated dicts owned by the binding machinery"""
        k = z3.Const("k!ibs", Val)
        b = bs_addr(reg)
        inner = H.d_get(b, k)
        return z3.ForAll([k], z3.Implies(H.d_has(b, k), z3.And(Val.is_ref(inner), 0 <= Val.a(inner), Val.a(inner) < H.alloc,
                                                               z3.Select(H.g("g:owner"), Val.a(inner)) == Val.pair(k, con("own:bound-signals")))),
                         patterns=[H.d_has(b, k)])
    reg.invariants.append(("I-bs:binding-tables-are-owned", i_bs, ("d_has", "d_get", "g:owner", "alloc")))

    def i_bsig(H, reg=reg):
        """I-bsig: every signal in the binding table is an allocated bound signal that records its own (instance, attribute):
        hence distinct (instance, attribute) pairs never share a bound signal, and the instance is referenced weakly only"""
        k = z3.Const("k!ibg", Val)
        tp = z3.Const("t!ibg", Val)
        sig = bound_sig(H, reg, k, tp)
        a_ = Val.a(sig)
        return z3.ForAll([k, tp], z3.Implies(bound_has(H, reg, k, tp),
                                             z3.And(Val.is_ref(sig), 0 <= a_, a_ < H.alloc, H.isset("_instance", a_),
                                                    H.fld("_topic", a_) == tp, H.fld("_instance", a_) == Val.wref(k),
                                                    subcls(H.fld("__class__", a_), con("Signal")),
                                                    Val.is_ref(H.fld("_send_streams", a_)), 0 <= Val.a(H.fld("_send_streams", a_)),
                                                    Val.a(H.fld("_send_streams", a_)) < H.alloc,
                                                    z3.Select(H.g("g:owner"), Val.a(H.fld("_send_streams", a_))) == Val.pair(sig, con("own:send-streams")))),
                         patterns=[H.d_has(Val.a(H.d_get(bs_addr(reg), k)), tp)])
    reg.invariants.append(("I-bsig:bound-signals-record-their-instance-and-attribute", i_bsig,
                           ("d_has", "d_get", "fld:_topic", "fld:_instance", "set:_instance", "fld:__class__", "alloc", "fld:_send_streams", "g:owner"), {"lazy": True}))

    def g_bind(old, new, reg=reg):
        """G-bind: a binding, once made, is never changed or removed (while the instance is alive)"""
        k = z3.Const("k!gb", Val)
        tp = z3.Const("t!gb", Val)
        return z3.ForAll([k, tp], z3.Implies(bound_has(old, reg, k, tp),
                                             z3.And(bound_has(new, reg, k, tp), bound_sig(new, reg, k, tp) == bound_sig(old, reg, k, tp))),
                         patterns=[bound_sig(new, reg, k, tp)])
    reg.guarantees.append(("G-bind:bindings-are-permanent", g_bind, ("d_has", "d_get")))

    # signal declarations found in class bodies (module-level facts, DESIGN Appendix C rule 10)
    def i_decl_factory(world):
        decls = []
        for cname, ci in world.classes.items():
            for attr, val in ci.class_attrs.items():
                if isinstance(val, ast.Call) and isinstance(val.func, ast.Name) and val.func.id == "Signal" and val.args:
                    ec = val.args[0]
                    decls.append((cname, attr, ec.id if isinstance(ec, ast.Name) else ast.unparse(ec)))
        return decls
    reg._signal_decl_finder = i_decl_factory

    def i_decl(H, reg=reg):
        fs = []
        for (cname, attr, ec) in reg._signal_decls:
            d = Val.a(reg.global_ref(f"signal:{cname}.{attr}"))
            fs += [H.fld("event_class", d) == con(ec), H.fld("_topic", d) == sid(attr), z3.Not(H.isset("_instance", d))]
        return z3.And(*fs) if fs else z3.BoolVal(True)
    reg.invariants.append(("I-decl:signal-declarations-fixed", i_decl, ("fld:event_class", "fld:_topic", "set:_instance")))
