"""C19: the closures of inject(): call-time resolution = explicit lookups in the current context."""
import z3
from pyvc.smt import *
from pyvc.state import *
from pyvc.specs import FnSpec, Frame
from pyvc import roles
from .c_context import *

INJ = "_context.inject"
NOWAIT, GET = "_context.Context.get_resource_nowait", "_context.Context.get_resource"
CELLS = {"injected_resources": DICT(TSTR, INST("_Dependency")), "forward_refs_resolved": TBOOL, "func": ANY, "local_names": ANY,
         "resolve_forward_refs": CLOSURE(INJ + ".resolve_forward_refs")}


def cell(H, st, name):
    return H.fld("cell:" + name, st.ghost["outer_env"])


def inj_rely(eng, st, anchor=""):
    """A-INJ (census: the closure cells of one inject() activation are referenced only by its own closures): while a resolver runs, nobody
    else writes the marker table or the markers of this decorated function"""
    st.uses.add("A-INJ")
    env = st.ghost["outer_env"]

    def own(old, new):
        d = Val.a(old.fld("cell:injected_resources", env))
        k = z3.Const("k!inj", Val)
        dep = lambda H: Val.a(H.d_get(d, k))
        return z3.And(new.fld("cell:injected_resources", env) == old.fld("cell:injected_resources", env),
                      new.d_hasarr(d) == old.d_hasarr(d), new.d_getarr(d) == old.d_getarr(d),
                      z3.ForAll([k], z3.Implies(old.d_has(d, k), z3.And(new.fld("name", dep(old)) == old.fld("name", dep(old)),
                                                                        new.fld("cls", dep(old)) == old.fld("cls", dep(old)),
                                                                        new.fld("optional", dep(old)) == old.fld("optional", dep(old)))),
                                patterns=[new.fld("name", dep(old))]))
    return [("A-INJ:marker-table-written-only-by-its-own-inject-activation", own)]


class ResolveForwardRefs(FnSpec):
    """C19: forward references are marked resolved only when the resolution completed: a failing resolution leaves the flag unset, so the
    next call tries again instead of using half-initialised markers"""
    qual = INJ + ".resolve_forward_refs"
    properties = ("C19",)
    cell_types = CELLS
    modifies = "rely"
    may_raise = True
    frame_rule = True
    extra_rely = staticmethod(inj_rely)

    def requires(self, F):
        return []

    def ensures(self, F):
        return [("resolved-flag-set", cell(F.new, F.new_st, "forward_refs_resolved") == vbool(True))]

    def raises(self, F):
        return [("flag-unchanged-when-resolution-fails", cell(F.new, F.new_st, "forward_refs_resolved") == cell(F.old, F.old_st, "forward_refs_resolved"))]

    def _loop0(self, L):
        E, C = L.entry, L.cur
        return [("flag-not-yet-set-inside-the-loop", cell(C, L.cur_st, "forward_refs_resolved") == cell(E, L.entry_st, "forward_refs_resolved")),
                ("alloc-monotone", C.alloc >= E.alloc)]

    def __init__(self):
        self.loops = {0: self._loop0}


class _Resolve(FnSpec):
    """C19: resolve_resources[_async](): forward references resolved first iff not yet resolved; then, for every marker of the decorated
    function, exactly one lookup in the context current at call time with (marker.cls, marker.name) and optional=True iff the marker is
    optional; the result is stored under the parameter's name; the returned dict has exactly the markers' parameter names."""
    properties = ("C19",)
    cell_types = CELLS
    modifies = "rely"
    may_raise = True
    frame_rule = True
    lookup = None
    extra_rely = staticmethod(inj_rely)

    def requires(self, F):
        env = F.old_st.ghost["outer_env"]
        d = F.old.fld("cell:injected_resources", env)
        k = z3.Const("k!rq", Val)
        return [("marker-table-holds-markers", z3.And(Val.is_ref(d), z3.ForAll([k], z3.Implies(F.old.d_has(Val.a(d), k), z3.And(
            Val.is_ref(F.old.d_get(Val.a(d), k)), 0 <= Val.a(F.old.d_get(Val.a(d), k)), Val.a(F.old.d_get(Val.a(d), k)) < F.old.alloc)),
            patterns=[F.old.d_get(Val.a(d), k)])))]

    def init_ghost(self, eng, st):
        st.ghost["alloc0"] = st.heap["alloc"]
        st.ghost["curctx0"] = st.heap["g:curctx"]
        st.ghost["resolved0"] = HeapView(dict(st.heap)).fld("cell:forward_refs_resolved", st.ghost["outer_env"])

    def on_spec_call(self, eng, st, qual, args, anchor):
        if qual != self.lookup:
            return
        names = roles.loop_target_names(eng.fi.node, 0)
        dep = Val.a(st.env[names[1]].t)
        eng.oblige(st, "post", "lookup:in-the-context-current-at-call-time", args["self"].t == st.ghost["curctx0"], anchor)
        eng.oblige(st, "post", "lookup:annotated-type-and-marker-name",
                   z3.And(args["type"].t == st.fld("cls", dep), args["name"].t == st.fld("name", dep)), anchor)
        eng.oblige(st, "post", "lookup:optional-iff-the-marker-is-optional",
                   eng.truth(st, args["optional"]) == Val.b(st.fld("optional", dep)), anchor)

    def _loop0(self, L):
        E, C = L.entry, L.cur
        g = L.cur_st.ghost
        res = Val.a(L.v(roles.returned_name(L.eng.fi.node)).t)
        P = L.it["P"]
        k = z3.Const("k!rr", Val)
        out = [
            ("result-dict-is-private", z3.And(res >= g["alloc0"], res < C.alloc, z3.Select(C.g("g:owner"), res) == con("own:nobody"))),
            ("result-keys-are-the-processed-parameters", z3.ForAll([k], C.d_has(res, k) == z3.Select(P, k), patterns=[C.d_has(res, k)])),
            ("current-context-unchanged", C.h("g:curctx") == E.h("g:curctx")),
            ("marker-table-cell-unchanged", cell(C, L.cur_st, "injected_resources") == cell(E, L.entry_st, "injected_resources")),
            ("marker-table-keys-unchanged", C.d_hasarr(Val.a(cell(E, L.entry_st, "injected_resources"))) == E.d_hasarr(Val.a(cell(E, L.entry_st, "injected_resources")))),
            ("alloc-monotone", C.alloc >= E.alloc),
        ]
        # the iteration that just ended stored the result of its own lookup under its own parameter name
        tr = L.cur_st.trace[len(L.entry_st.trace):]
        rets = [e for e in tr if e[0] == "spec_ret" and e[1] == self.lookup]
        stores = [e for e in tr if e[0] == "dstore"]
        names = roles.loop_target_names(L.eng.fi.node, 0)
        if rets or stores:
            ok = z3.BoolVal(len(rets) == 1 and len(stores) == 1)
            if len(rets) == 1 and len(stores) == 1:
                ok = z3.And(stores[0][1] == res if not isinstance(stores[0][1], SV) else Val.a(stores[0][1].t) == res,
                            (stores[0][2].t if isinstance(stores[0][2], SV) else stores[0][2]) == L.cur_st.env[names[0]].t,
                            (stores[0][3].t if isinstance(stores[0][3], SV) else stores[0][3]) == rets[0][3].t)
            out.append(("stores-this-lookups-result-under-this-parameter-name", ok))
        return out

    def local_ensures(self, F):
        tr = F.new_st.trace
        env = F.old_st.ghost["outer_env"]
        d = Val.a(F.old.fld("cell:injected_resources", env))
        k = z3.Const("k!re", Val)
        fr = [e for e in tr if e[0] == "spec_call" and e[1] == INJ + ".resolve_forward_refs"]
        r = Val.a(F.result.t)
        return [("forward-references-resolved-first-iff-not-yet-resolved",
                 z3.If(Val.b(F.new_st.ghost["resolved0"]), z3.BoolVal(not fr), z3.BoolVal(len(fr) == 1))),
                ("returns-one-entry-per-marker", z3.ForAll([k], F.new.d_has(r, k) == F.old.d_has(d, k), patterns=[F.new.d_has(r, k)]))]

    def __init__(self):
        self.loops = {0: self._loop0}


class ResolveResources(_Resolve):
    qual = INJ + ".resolve_resources"
    lookup = NOWAIT


class ResolveResourcesAsync(_Resolve):
    qual = INJ + ".resolve_resources_async"
    lookup = GET
    suspends = True


def register(reg):
    reg.schema["_Dependency"] = {"name": TSTR, "cls": ANY, "optional": TBOOL}
    reg.assumptions_text["A-INJ"] = ("the closure cells of one inject() activation (marker table, resolved flag) are referenced only by that "
                                     "activation's own closures (census of _context.py): nobody else writes them while a resolver runs")
    for s in (ResolveForwardRefs, ResolveResources, ResolveResourcesAsync):
        reg.add(s)


class _Wrapper(FnSpec):
    """C19: the wrapper installed by @inject: resolves the resources first (exactly once, before the function is entered - a failing lookup
    therefore raises before the function body runs), then calls the original function exactly once with the caller's positional and
    keyword arguments unchanged plus the resolved resources as keyword arguments, and returns its result."""
    properties = ("C19",)
    cell_types = dict(CELLS)
    modifies = "rely"
    may_raise = True
    resolver = None
    param_types = {"args": TUP(ANY), "kwargs": DICT(TSTR, ANY)}

    def requires(self, F):
        env = F.old_st.ghost["outer_env"]
        d = F.old.fld("cell:injected_resources", env)
        k = z3.Const("k!wq", Val)
        return [("marker-table-holds-markers", z3.And(Val.is_ref(d), z3.ForAll([k], z3.Implies(F.old.d_has(Val.a(d), k), z3.And(
            Val.is_ref(F.old.d_get(Val.a(d), k)), 0 <= Val.a(F.old.d_get(Val.a(d), k)), Val.a(F.old.d_get(Val.a(d), k)) < F.old.alloc)),
            patterns=[F.old.d_get(Val.a(d), k)])))]

    def _clauses(self, F, normal):
        tr = F.new_st.trace
        env = F.old_st.ghost["outer_env"]
        func = F.old.fld("cell:func", env)
        res_calls = [i for i, e in enumerate(tr) if e[0] == "spec_call" and e[1] == self.resolver]
        res_rets = [i for i, e in enumerate(tr) if e[0] == "spec_ret" and e[1] == self.resolver]
        calls = [i for i, e in enumerate(tr) if e[0] in ("opaque", "opaque-raise")]
        out = [("resolves-exactly-once-and-first", z3.BoolVal(len(res_calls) == 1 and all(i > res_calls[0] for i in calls))),
               ("function-entered-at-most-once-and-only-after-a-successful-resolution",
                z3.BoolVal(len(calls) <= 1 and (not calls or (len(res_rets) == 1 and res_rets[0] < calls[0]))))]
        for i in calls[:1]:
            e = tr[i]
            a = e[2]
            out.append(("calls-the-original-function", e[1].t == func))
            ok = z3.BoolVal(len(a) == 3)
            if len(a) == 3 and res_rets:
                ok = z3.And(a[0].t == F.t("args"), a[1].t == F.t("kwargs"), a[2].t == tr[res_rets[0]][3].t)
            out.append(("arguments-pass-through-unchanged-plus-the-resolved-resources", ok))
            if normal and e[0] == "opaque":
                out.append(("returns-the-functions-result", F.result.t == e[3].t))
        if normal:
            out.append(("normal-return-only-through-the-function", z3.BoolVal(len(calls) == 1)))
        return out

    def local_ensures(self, F):
        return self._clauses(F, True)

    def local_raises(self, F):
        return self._clauses(F, False)


class SyncWrapper(_Wrapper):
    qual = INJ + ".sync_wrapper"
    resolver = INJ + ".resolve_resources"


class AsyncWrapper(_Wrapper):
    qual = INJ + ".async_wrapper"
    resolver = INJ + ".resolve_resources_async"
    suspends = True


def register2(reg):
    CELLS["resolve_resources"] = CLOSURE(INJ + ".resolve_resources")
    CELLS["resolve_resources_async"] = CLOSURE(INJ + ".resolve_resources_async")
    _Wrapper.cell_types = dict(CELLS)
    SyncWrapper.cell_types = dict(CELLS)
    AsyncWrapper.cell_types = dict(CELLS)
    reg.add(SyncWrapper)
    reg.add(AsyncWrapper)


class InjectDecorate(FnSpec):
    """C19 (decoration time): inject(func) scans signature(func).parameters: a parameter whose default is a resource() marker is recorded
    under its name unless it is positional-only or unannotated (TypeError, nothing is returned); a default that is the bare `resource`
    function is rejected (TypeError); with at least one marker the async wrapper is returned for a coroutine function and the sync wrapper
    otherwise; without markers the function itself is returned."""
    qual = INJ
    properties = ("C19",)
    param_types = {"func": ANY}
    modifies = "rely"
    may_raise = True
    check_guarantee = False

    def requires(self, F):
        return []

    def init_ghost(self, eng, st):
        st.ghost["alloc0"] = st.heap["alloc"]

    def _param(self, eng, st):
        from pyvc import roles
        return st.env[roles.loop_target_names(eng.fi.node, 0)[0]].t

    def _facts(self, eng, st, H):
        p = self._param(eng, st)
        from pyvc.calls import attr_of, ATTRS
        get = lambda name: z3.If(Val.is_ref(p), H.fld(name, Val.a(p)), attr_of(p, z3.IntVal(ATTRS.id(name))))
        d = get("default")
        isdep = z3.And(Val.is_ref(d), subcls(H.fld("__class__", Val.a(d)), con("_Dependency")))
        posonly = get("kind") == con("inspect.Parameter.POSITIONAL_ONLY")
        unann = get("annotation") == con("inspect.Parameter.empty")
        bare = d == con("func:_context.resource")
        return get, d, isdep, posonly, unann, bare

    def on_loop_body(self, eng, st, k, it):
        st.ghost["iter_trace_start"] = len(st.trace)
        st.ghost["iter_heap"] = HeapView(dict(st.heap))

    def on_new_exception(self, eng, st, cls, a, args):
        if "iter_heap" not in st.ghost:
            return
        get, d, isdep, posonly, unann, bare = self._facts(eng, st, st.ghost["iter_heap"])
        eng.oblige(st, "post", "rejects-only-positional-only-or-unannotated-markers-and-the-bare-resource-function",
                   z3.And(z3.BoolVal(cls == "TypeError"), z3.Or(z3.And(isdep, z3.Or(posonly, unann)), z3.And(z3.Not(isdep), bare))), cls)

    def _loop0(self, L):
        from pyvc import roles
        E, C = L.entry, L.cur
        st = L.cur_st
        g = st.ghost
        inj = Val.a(L.v(roles.assigned_dict_name(L.eng.fi.node)).t)
        k = z3.Const("k!id", Val)
        out = [("alloc-monotone", C.alloc >= E.alloc),
               ("marker-table-is-private-and-holds-markers",
                z3.And(inj >= g["alloc0"], inj < C.alloc,
                       z3.ForAll([k], z3.Implies(C.d_has(inj, k), z3.And(Val.is_ref(C.d_get(inj, k)), 0 <= Val.a(C.d_get(inj, k)), Val.a(C.d_get(inj, k)) < C.alloc,
                                                                         subcls(C.fld("__class__", Val.a(C.d_get(inj, k))), con("_Dependency")))),
                                 patterns=[C.d_get(inj, k)])))]
        if "iter_heap" in g and st is not L.entry_st and len(st.trace) >= g.get("iter_trace_start", 0):
            tr = st.trace[g["iter_trace_start"]:]
            stores = [e for e in tr if e[0] == "dstore"]
            get, d, isdep, posonly, unann, bare = self._facts(L.eng, st, g["iter_heap"])
            if stores:
                e = stores[-1]
                kk = e[2].t if isinstance(e[2], SV) else e[2]
                vv = e[3].t if isinstance(e[3], SV) else e[3]
                out.append(("records-a-valid-marker-under-the-parameter-name",
                            z3.And(z3.BoolVal(len(stores) == 1), isdep, z3.Not(posonly), z3.Not(unann), kk == get("name"), vv == d)))
            else:
                out.append(("skips-only-parameters-without-a-marker", z3.And(z3.Not(isdep), z3.Not(bare))))
        return out

    def local_ensures(self, F):
        from pyvc import roles
        st = F.new_st
        inj = Val.a(st.env[roles.assigned_dict_name(F.eng.fi.node)].t)
        nonempty = F.new.d_len(inj) != 0
        isco = iscoroutinefunction_u(F.t("func"))
        aw = F.eng.make_closure(st, None, INJ + ".async_wrapper").t
        sw = F.eng.make_closure(st, None, INJ + ".sync_wrapper").t
        return [("returns-the-matching-wrapper-or-the-function-itself",
                 F.result.t == z3.If(nonempty, z3.If(isco, aw, sw), F.t("func")))]

    def __init__(self):
        self.loops = {0: self._loop0}


iscoroutinefunction_u = z3.Function("iscoroutinefunction_u", Val, B)


def register3(reg):
    reg.ext_calls["inspect.iscoroutinefunction"] = lambda eng, st, pos, kw, node: [Res(st, SV(vbool(iscoroutinefunction_u(pos[0].t)), TBOOL))]
    reg.ext_calls["inspect.isasyncgenfunction"] = lambda eng, st, pos, kw, node: [Res(st, SV(vbool(z3.Function("isasyncgenfunction_u", Val, B)(pos[0].t)), TBOOL))]

    def pure_any(eng, st, pos, kw, node):
        st.uses.add("AX-ITER-PURE")
        return [Res(st, SV(fresh("ext"), ANY))]
    reg.lib_classes |= {"Signature"}
    reg.lib_schema["Signature"] = {"parameters": DICT(TSTR, ANY)}

    def signature(eng, st, pos, kw, node):
        """inspect.signature(func): an object whose `parameters` is a mapping name -> Parameter, created by this call (AX-ITER-PURE: no
        other effect; iterating it has none either)"""
        st.uses.add("AX-ITER-PURE")
        from .lib_anyio import new_lib
        v = new_lib(eng, st, "Signature")
        d = st.new_dict(fresh("sig_has", KB), fresh("sig_get", KV), fresh("sig_len", I))
        st.set_fld("parameters", Val.a(v.t), vref(d))
        return [Res(st, v)]
    reg.ext_calls["inspect.signature"] = signature
    reg.ext_calls.setdefault("sys._getframe", pure_any)
    reg.ext_calls.setdefault("functools.wraps", pure_any)
    reg.add(InjectDecorate)
