"""C19: the closures of inject(): call-time resolution = explicit lookups in the current context."""
import z3
from pyvc.smt import *
from pyvc.state import *
from pyvc.specs import FnSpec, Frame
from pyvc import roles
from .c_context import *

INJ = "_context.inject"
NOWAIT, GET = "_context.Context.get_resource_nowait", "_context.Context.get_resource"
CELLS = {"injected_resources": DICT(TSTR, INST("_Dependency")), "forward_refs_resolved": TBOOL, "func": ANY, "local_names": ANY,
         "resolve_forward_refs": CLOSURE(INJ + ".resolve_forward_refs")}


def cell(H, st, name):
    return H.fld("cell:" + name, st.ghost["outer_env"])


def inj_rely(eng, st, anchor=""):
    """A-INJ (census: the closure cells of one inject() activation are referenced only by its own closures): while a resolver runs, nobody
    else writes the marker table or the markers of this decorated function"""
    st.uses.add("A-INJ")
    env = st.ghost["outer_env"]

    def own(old, new):
        d = Val.a(old.fld("cell:injected_resources", env))
        k = z3.Const("k!inj", Val)
        dep = lambda H: Val.a(H.d_get(d, k))
        return z3.And(new.fld("cell:injected_resources", env) == old.fld("cell:injected_resources", env),
                      new.d_hasarr(d) == old.d_hasarr(d), new.d_getarr(d) == old.d_getarr(d),
                      z3.ForAll([k], z3.Implies(old.d_has(d, k), z3.And(new.fld("name", dep(old)) == old.fld("name", dep(old)),
                                                                        new.fld("cls", dep(old)) == old.fld("cls", dep(old)),
                                                                        new.fld("optional", dep(old)) == old.fld("optional", dep(old)))),
                                patterns=[new.fld("name", dep(old))]))
    return [("A-INJ:marker-table-written-only-by-its-own-inject-activation", own)]


class ResolveForwardRefs(FnSpec):
    """C19: forward references are marked resolved only when the resolution completed: a failing resolution leaves the flag unset, so the
    next call tries again instead of using half-initialised markers"""
    qual = INJ + ".resolve_forward_refs"
    properties = ("C19",)
    cell_types = CELLS
    modifies = "rely"
    may_raise = True
    frame_rule = True
    extra_rely = staticmethod(inj_rely)

    def requires(self, F):
        return []

    def ensures(self, F):
        return [("resolved-flag-set", cell(F.new, F.new_st, "forward_refs_resolved") == vbool(True))]

    def raises(self, F):
        return [("flag-unchanged-when-resolution-fails", cell(F.new, F.new_st, "forward_refs_resolved") == cell(F.old, F.old_st, "forward_refs_resolved"))]

    def _loop0(self, L):
        E, C = L.entry, L.cur
        return [("flag-not-yet-set-inside-the-loop", cell(C, L.cur_st, "forward_refs_resolved") == cell(E, L.entry_st, "forward_refs_resolved")),
                ("alloc-monotone", C.alloc >= E.alloc)]

    def __init__(self):
        self.loops = {0: self._loop0}


class _Resolve(FnSpec):
    """C19: resolve_resources[_async](): forward references resolved first iff not yet resolved; then, for every marker of the decorated
    function, exactly one lookup in the context current at call time with (marker.cls, marker.name) and optional=True iff the marker is
    optional; the result is stored under the parameter's name; the returned dict has exactly the markers' parameter names."""
    properties = ("C19",)
    cell_types = CELLS
    modifies = "rely"
    may_raise = True
    frame_rule = True
    lookup = None
    extra_rely = staticmethod(inj_rely)

    def requires(self, F):
        env = F.old_st.ghost["outer_env"]
        d = F.old.fld("cell:injected_resources", env)
        k = z3.Const("k!rq", Val)
        return [("marker-table-holds-markers", z3.And(Val.is_ref(d), z3.ForAll([k], z3.Implies(F.old.d_has(Val.a(d), k), z3.And(
            Val.is_ref(F.old.d_get(Val.a(d), k)), 0 <= Val.a(F.old.d_get(Val.a(d), k)), Val.a(F.old.d_get(Val.a(d), k)) < F.old.alloc)),
            patterns=[F.old.d_get(Val.a(d), k)])))]

    def init_ghost(self, eng, st):
        st.ghost["alloc0"] = st.heap["alloc"]
        st.ghost["curctx0"] = st.heap["g:curctx"]
        st.ghost["resolved0"] = HeapView(dict(st.heap)).fld("cell:forward_refs_resolved", st.ghost["outer_env"])

    def on_spec_call(self, eng, st, qual, args, anchor):
        if qual != self.lookup:
            return
        names = roles.loop_target_names(eng.fi.node, 0)
        dep = Val.a(st.env[names[1]].t)
        eng.oblige(st, "post", "lookup:in-the-context-current-at-call-time", args["self"].t == st.ghost["curctx0"], anchor)
        eng.oblige(st, "post", "lookup:annotated-type-and-marker-name",
                   z3.And(args["type"].t == st.fld("cls", dep), args["name"].t == st.fld("name", dep)), anchor)
        eng.oblige(st, "post", "lookup:optional-iff-the-marker-is-optional",
                   eng.truth(st, args["optional"]) == Val.b(st.fld("optional", dep)), anchor)

    def _loop0(self, L):
        E, C = L.entry, L.cur
        g = L.cur_st.ghost
        res = Val.a(L.v(roles.returned_name(L.eng.fi.node)).t)
        P = L.it["P"]
        k = z3.Const("k!rr", Val)
        out = [
            ("result-dict-is-private", z3.And(res >= g["alloc0"], res < C.alloc, z3.Select(C.g("g:owner"), res) == con("own:nobody"))),
            ("result-keys-are-the-processed-parameters", z3.ForAll([k], C.d_has(res, k) == z3.Select(P, k), patterns=[C.d_has(res, k)])),
            ("current-context-unchanged", C.h("g:curctx") == E.h("g:curctx")),
            ("marker-table-cell-unchanged", cell(C, L.cur_st, "injected_resources") == cell(E, L.entry_st, "injected_resources")),
            ("marker-table-keys-unchanged", C.d_hasarr(Val.a(cell(E, L.entry_st, "injected_resources"))) == E.d_hasarr(Val.a(cell(E, L.entry_st, "injected_resources")))),
            ("alloc-monotone", C.alloc >= E.alloc),
        ]
        # the iteration that just ended stored the result of its own lookup under its own parameter name
        tr = L.cur_st.trace[len(L.entry_st.trace):]
        rets = [e for e in tr if e[0] == "spec_ret" and e[1] == self.lookup]
        stores = [e for e in tr if e[0] == "dstore"]
        names = roles.loop_target_names(L.eng.fi.node, 0)
        if rets or stores:
            ok = z3.BoolVal(len(rets) == 1 and len(stores) == 1)
            if len(rets) == 1 and len(stores) == 1:
                ok = z3.And(stores[0][1] == res if not isinstance(stores[0][1], SV) else Val.a(stores[0][1].t) == res,
                            (stores[0][2].t if isinstance(stores[0][2], SV) else stores[0][2]) == L.cur_st.env[names[0]].t,
                            (stores[0][3].t if isinstance(stores[0][3], SV) else stores[0][3]) == rets[0][3].t)
            out.append(("stores-this-lookups-result-under-this-parameter-name", ok))
        return out

    def local_ensures(self, F):
        tr = F.new_st.trace
        env = F.old_st.ghost["outer_env"]
        d = Val.a(F.old.fld("cell:injected_resources", env))
        k = z3.Const("k!re", Val)
        fr = [e for e in tr if e[0] == "spec_call" and e[1] == INJ + ".resolve_forward_refs"]
        r = Val.a(F.result.t)
        return [("forward-references-resolved-first-iff-not-yet-resolved",
                 z3.If(Val.b(F.new_st.ghost["resolved0"]), z3.BoolVal(not fr), z3.BoolVal(len(fr) == 1))),
                ("returns-one-entry-per-marker", z3.ForAll([k], F.new.d_has(r, k) == F.old.d_has(d, k), patterns=[F.new.d_has(r, k)]))]

    def __init__(self):
        self.loops = {0: self._loop0}


class ResolveResources(_Resolve):
    qual = INJ + ".resolve_resources"
    lookup = NOWAIT


class ResolveResourcesAsync(_Resolve):
    qual = INJ + ".resolve_resources_async"
    lookup = GET
    suspends = True


def register(reg):
    reg.schema["_Dependency"] = {"name": TSTR, "cls": ANY, "optional": TBOOL}
    reg.assumptions_text["A-INJ"] = ("the closure cells of one inject() activation (marker table, resolved flag) are referenced only by that "
                                     "activation's own closures (census of _context.py): nobody else writes them while a resolver runs")
    for s in (ResolveForwardRefs, ResolveResources, ResolveResourcesAsync):
        reg.add(s)


class _Wrapper(FnSpec):
    """C19: the wrapper installed by @inject: resolves the resources first (exactly once, before the function is entered - a failing lookup
    therefore raises before the function body runs), then calls the original function exactly once with the caller's positional and
    keyword arguments unchanged plus the resolved resources as keyword arguments, and returns its result."""
    properties = ("C19",)
    cell_types = dict(CELLS)
    modifies = "rely"
    may_raise = True
    resolver = None
    param_types = {"args": TUP(ANY), "kwargs": DICT(TSTR, ANY)}

    def requires(self, F):
        env = F.old_st.ghost["outer_env"]
        d = F.old.fld("cell:injected_resources", env)
        k = z3.Const("k!wq", Val)
        return [("marker-table-holds-markers", z3.And(Val.is_ref(d), z3.ForAll([k], z3.Implies(F.old.d_has(Val.a(d), k), z3.And(
            Val.is_ref(F.old.d_get(Val.a(d), k)), 0 <= Val.a(F.old.d_get(Val.a(d), k)), Val.a(F.old.d_get(Val.a(d), k)) < F.old.alloc)),
            patterns=[F.old.d_get(Val.a(d), k)])))]

    def _clauses(self, F, normal):
        tr = F.new_st.trace
        env = F.old_st.ghost["outer_env"]
        func = F.old.fld("cell:func", env)
        res_calls = [i for i, e in enumerate(tr) if e[0] == "spec_call" and e[1] == self.resolver]
        res_rets = [i for i, e in enumerate(tr) if e[0] == "spec_ret" and e[1] == self.resolver]
        calls = [i for i, e in enumerate(tr) if e[0] in ("opaque", "opaque-raise")]
        out = [("resolves-exactly-once-and-first", z3.BoolVal(len(res_calls) == 1 and all(i > res_calls[0] for i in calls))),
               ("function-entered-at-most-once-and-only-after-a-successful-resolution",
                z3.BoolVal(len(calls) <= 1 and (not calls or (len(res_rets) == 1 and res_rets[0] < calls[0]))))]
        for i in calls[:1]:
            e = tr[i]
            a = e[2]
            out.append(("calls-the-original-function", e[1].t == func))
            ok = z3.BoolVal(len(a) == 3)
            if len(a) == 3 and res_rets:
                ok = z3.And(a[0].t == F.t("args"), a[1].t == F.t("kwargs"), a[2].t == tr[res_rets[0]][3].t)
            out.append(("arguments-pass-through-unchanged-plus-the-resolved-resources", ok))
            if normal and e[0] == "opaque":
                out.append(("returns-the-functions-result", F.result.t == e[3].t))
        if normal:
            out.append(("normal-return-only-through-the-function", z3.BoolVal(len(calls) == 1)))
        return out

    def local_ensures(self, F):
        return self._clauses(F, True)

    def local_raises(self, F):
        return self._clauses(F, False)


class SyncWrapper(_Wrapper):
    qual = INJ + ".sync_wrapper"
    resolver = INJ + ".resolve_resources"


class AsyncWrapper(_Wrapper):
    qual = INJ + ".async_wrapper"
    resolver = INJ + ".resolve_resources_async"
    suspends = True


def register2(reg):
    CELLS["resolve_resources"] = CLOSURE(INJ + ".resolve_resources")
    CELLS["resolve_resources_async"] = CLOSURE(INJ + ".resolve_resources_async")
    _Wrapper.cell_types = dict(CELLS)
    SyncWrapper.cell_types = dict(CELLS)
    AsyncWrapper.cell_types = dict(CELLS)
    reg.add(SyncWrapper)
    reg.add(AsyncWrapper)
