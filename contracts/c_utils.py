"""Contracts for asphalt/core/_utils.py"""
import z3
from pyvc.smt import *
from pyvc.state import *
from pyvc.specs import FnSpec, Frame, LoopCtx
from pyvc import roles

# history predicate: r was returned by a call merge_config(a, b) that satisfied MergeConfig's contract
Merged = z3.Function("Merged", Val, Val, Val, B)


def _isdict(v):
    return z3.And(v != VNone, is_dict_u(v))


class MergeConfig(FnSpec):
    """C17: merge_config(original, overrides) is a pure, right-biased deep merge.

    One-level contract, verified against itself at the recursive call (induction on depth):
      * result is a fresh dict; key set = keys(A) | keys(B)   (A = original or {}, B = overrides or {})
      * dict/dict collision: the value is a fresh result of merge_config(A[k], B[k])  (Merged history predicate)
      * any other key of B: B's value;  keys only in A: A's value
      * every dict that existed before the call is unchanged (at every depth: callees have the same frame)
      * the only dict this activation itself writes is its fresh result (results of recursive calls are sealed)
    """
    qual = "_utils.merge_config"
    properties = ("C17", "C14", "C16")
    param_types = {"original": OPT(DICT()), "overrides": OPT(DICT())}
    ret_type = DICT()
    modifies = frozenset({"d_has", "d_get", "d_len"})
    may_raise = False
    check_guarantee = False
    result_owned = "dict"           # fresh-result: the new dictionary is referenced by nobody but the caller
    soft_requires = "A-BADARG"      # a non-dict argument makes merge_config raise (AttributeError/TypeError) before it writes anything that existed

    # --- abstraction of an argument: None and {} are the empty mapping
    @staticmethod
    def _has(H, v, k):
        return z3.And(v != VNone, H.d_has(Val.a(v), k))

    @staticmethod
    def _get(H, v, k):
        return H.d_get(Val.a(v), k)

    def requires(self, F):
        o, v = F.t("original"), F.t("overrides")
        return [("original-none-or-dict", z3.Or(o == VNone, z3.And(Val.is_ref(o), is_dict_u(o)))),
                ("overrides-none-or-dict", z3.Or(v == VNone, z3.And(Val.is_ref(v), is_dict_u(v))))]

    def _clauses(self, H, Hold, r, o, v, alloc_old, alloc_new):
        k = z3.Const("k!mc", Val)
        ra = Val.a(r)
        hasA, hasB = self._has(Hold, o, k), self._has(Hold, v, k)
        getA, getB = self._get(Hold, o, k), self._get(Hold, v, k)
        dd = z3.And(hasA, hasB, _isdict(getA), _isdict(getB))
        rk = H.d_get(ra, k)
        trig = [H.d_has(ra, k)]
        return [
            ("keys-union", z3.ForAll([k], H.d_has(ra, k) == z3.Or(hasA, hasB), patterns=trig)),
            ("override-wins", z3.ForAll([k], z3.Implies(z3.And(hasB, z3.Not(dd)), rk == getB), patterns=[rk])),
            ("original-kept", z3.ForAll([k], z3.Implies(z3.And(hasA, z3.Not(hasB)), rk == getA), patterns=[rk])),
            ("nested-merged", z3.ForAll([k], z3.Implies(dd, z3.And(Merged(rk, getA, getB), Val.is_ref(rk),
                                                                  Val.a(rk) >= alloc_old, Val.a(rk) < alloc_new,
                                                                  is_dict_u(rk))), patterns=[rk])),
        ]

    def ensures(self, F):
        r, o, v = F.result.t, F.t("original"), F.t("overrides")
        d = z3.Const("d!mc", I)
        out = [("fresh-result", z3.And(F.fresh(r), is_dict_u(r)))]
        out += self._clauses(F.new, F.old, r, o, v, F.old.alloc, F.new.alloc)
        for c in ("d_has", "d_get", "d_len"):
            out.append((f"inputs-unmodified:{c}",
                        z3.ForAll([d], z3.Implies(d < F.old.alloc, F.same_at(c, d)),
                                  patterns=[z3.Select(F.new.h(c), d)])))
        return out

    def local_ensures(self, F):
        # about this activation's own write set (not meaningful at call sites: w_dict is activation-local)
        d = z3.Const("d!mc", I)
        return [("only-result-written", z3.ForAll([d], z3.Implies(z3.Select(F.new.h("w_dict"), d), d == Val.a(F.result.t)),
                                                  patterns=[z3.Select(F.new.h("w_dict"), d)]))]

    def call_site_extra(self, F):
        # definitional folding: the result of a call that satisfies this contract is `Merged`
        return [("merged", Merged(F.result.t, F.t("original"), F.t("overrides")))]

    # ---- loop 0: `for key, value in overrides.items()`
    def _loop0(self, L: LoopCtx):
        fn = L.eng.fi.node
        copied = L.v(roles.returned_name(fn))
        o, v = L.v("original").t, L.v("overrides").t
        ca = Val.a(copied.t)
        P = L.it["P"]
        k = z3.Const("k!li", Val)
        d = z3.Const("d!li", I)
        E, C = L.entry, L.cur
        hasA = self._has(E, o, k)
        hasB = self._has(E, v, k)
        getA, getB = self._get(E, o, k), self._get(E, v, k)
        dd = z3.And(hasA, hasB, _isdict(getA), _isdict(getB))
        ck = C.d_get(ca, k)
        alloc_e = L.entry_st.ghost["alloc_at_entry"]
        return [
            ("copied-fresh", z3.And(Val.is_ref(copied.t), ca >= alloc_e, ca < C.alloc, is_dict_u(copied.t))),
            ("keys", z3.ForAll([k], C.d_has(ca, k) == z3.Or(hasA, z3.Select(P, k)), patterns=[C.d_has(ca, k)])),
            ("unprocessed", z3.ForAll([k], z3.Implies(z3.And(z3.Not(z3.Select(P, k)), hasA), ck == getA), patterns=[ck])),
            ("processed-plain", z3.ForAll([k], z3.Implies(z3.And(z3.Select(P, k), z3.Not(dd)), ck == getB), patterns=[ck])),
            ("processed-nested", z3.ForAll([k], z3.Implies(z3.And(z3.Select(P, k), dd),
                                                          z3.And(Merged(ck, getA, getB), Val.is_ref(ck), Val.a(ck) >= alloc_e,
                                                                 Val.a(ck) < C.alloc, is_dict_u(ck))), patterns=[ck])),
        ] + [
            (f"old-dicts-unchanged:{c}", z3.ForAll([d], z3.Implies(d < alloc_e,
                                                                   z3.Select(C.h(c), d) == z3.Select(E.h(c), d)),
                                                    patterns=[z3.Select(C.h(c), d)]))
            for c in ("d_has", "d_get", "d_len")
        ] + [
            ("only-copied-written", z3.ForAll([d], z3.Implies(z3.Select(C.h("w_dict"), d), d == ca),
                                              patterns=[z3.Select(C.h("w_dict"), d)])),
            ("alloc-monotone", C.alloc >= E.alloc),
        ]

    loops = {}

    def __init__(self):
        self.loops = {0: self._loop0}

    def init_ghost(self, eng, st):
        st.ghost["alloc_at_entry"] = st.alloc


def _pure_str(q):
    class PureStr(FnSpec):
        """diagnostic helper (DESIGN section 1): assumed total, side-effect free, returns a string"""
        qual = q
        ret_type = TSTR
        modifies = frozenset()
        may_raise = False
        assumed = "A-DIAG"
        verify = False
        check_guarantee = False
    return PureStr


def register(reg):
    reg.add(MergeConfig)
    reg.add(CoalesceExceptions)
    for q in ("_utils.qualified_name", "_utils.callable_name", "_utils.format_component_name",
              "_component.ComponentContext._format_resource_description"):
        reg.add(_pure_str(q))
    reg.assumptions_text["A-BADARG"] = ("merge_config called with an argument that is neither None nor a dict raises an Exception "
                                        "(AttributeError/TypeError from .copy()/.items()) before writing any object that existed")
    reg.assumptions_text["A-DIAG"] = ("qualified_name, callable_name, format_component_name, _format_resource_description "
                                      "(diagnostics only) are total, side-effect free and return a string")


class CoalesceExceptions(FnSpec):
    """C07: coalesce_exceptions(): the block's outcome passes through unchanged, except that an ExceptionGroup with exactly one member that is
    not itself an ExceptionGroup is replaced by that member (the same object, its own cause kept).  This is the contract the exit-stack model
    (lib_anyio.k_coalesce) applies wherever the context manager is used."""
    qual = "_utils.coalesce_exceptions"
    properties = ("C07", "C05")
    modifies = "rely"
    suspends = True
    may_raise = True
    check_guarantee = False

    def requires(self, F):
        return []

    def init_ghost(self, eng, st):
        st.ghost["thrown"] = None
        st.ghost["resumed"] = False

    def after_await(self, eng, st_before, st_after, awaited, result, exc, anchor):
        st_after.ghost = dict(st_after.ghost)
        st_after.ghost["resumed"] = True
        if exc is not None:
            st_after.ghost["thrown"] = exc.t

    def local_ensures(self, F):
        g = F.new_st.ghost
        return [("returns-normally-only-when-the-block-did", z3.BoolVal(g["resumed"] and g["thrown"] is None))]

    def local_raises(self, F):
        g = F.new_st.ghost
        x = g["thrown"]
        if x is None:
            return [("raises-only-what-the-block-raised", z3.BoolVal(False))]
        H = F.new
        e = Val.a(x)
        is_eg = subcls(H.fld("__class__", e), con("ExceptionGroup"))
        lst = Val.a(H.fld("exceptions", e))
        m0 = H.l_item(lst, 0)
        single = z3.And(is_eg, H.l_len(lst) == 1, z3.Not(z3.And(Val.is_ref(m0), subcls(H.fld("__class__", Val.a(m0)), con("ExceptionGroup")))))
        return [("single-member-group-is-replaced-by-its-member-everything-else-passes-unchanged", F.exc.t == z3.If(single, m0, x))]
