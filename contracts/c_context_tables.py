"""Contracts for the resource tables of Context: class invariant, guarantee, add_resource, add_resource_factory,
get_resource_nowait, get_resources, __init__  (C02, C03, C04, C13, C18)."""
import ast
import z3
from pyvc.smt import *
from pyvc.state import *
from pyvc.specs import FnSpec, Frame, LoopCtx
from pyvc import roles
from pyvc.comps import tmem, tidx
from .c_event import bound_has, bound_sig, bs_addr
from .c_context import *

OWN_R, OWN_F, OWN_T, OWN_C, OWN_BS = (con("own:resources"), con("own:factories"), con("own:teardown"),
                                      con("own:children"), con("own:bound-signals"))


def owner(H, a):
    return z3.Select(H.g("g:owner"), a)


def types_mem(H, cont, t):
    """t is one of the types of container/factory object `cont` (an address)"""
    ta = Val.a(H.fld("types", cont))
    return tmem(z3.Select(H.h("t_item"), ta), H.t_len(ta), t)


def tup_mem(H, tup, t):
    """t is an element of tuple `tup` (SV with known item array, or a term read through heap H)"""
    if isinstance(tup, SV):
        if tup.aux is not None:
            return tmem(tup.aux[0], tup.aux[1], t)
        tup = tup.t
    ta = Val.a(tup)
    return tmem(z3.Select(H.h("t_item"), ta), H.t_len(ta), t)


# --------------------------------------------------------------------------------------- class invariant

def _ctx_forall(H, body_fn, pats=None):
    x = z3.Const("x!own", I)
    return z3.ForAll([x], z3.Implies(is_ctx(H, x), body_fn(x)),
                     patterns=pats(x) if pats else [z3.Select(H.g("g:ctx_init"), x)])


def inv_own_refs(H):
    """I-own (1): the four containers of an initialised context are allocated objects"""
    return _ctx_forall(H, lambda x: z3.And(
        Val.is_ref(H.fld("_resources", x)), Val.is_ref(H.fld("_resource_factories", x)),
        Val.is_ref(H.fld("_teardown_callbacks", x)), Val.is_ref(H.fld("_child_contexts", x)),
        0 <= R(H, x), R(H, x) < H.alloc, 0 <= Fa(H, x), Fa(H, x) < H.alloc, 0 <= T(H, x), T(H, x) < H.alloc,
        0 <= Val.a(H.fld("_child_contexts", x)), Val.a(H.fld("_child_contexts", x)) < H.alloc,
        0 <= x, x < H.alloc,
        # the parent of an initialised context is None or an initialised context
        z3.Or(H.fld("_parent", x) == VNone, z3.And(Val.is_ref(H.fld("_parent", x)), is_ctx(H, Val.a(H.fld("_parent", x)))))))


def inv_own_tags(H):
    """I-own (2) / I-sep: every initialised context owns its containers (distinct contexts, and the signal
    binding tables, never share a container)"""
    return _ctx_forall(H, lambda x: z3.And(
        owner(H, R(H, x)) == Val.pair(vref(x), OWN_R), owner(H, Fa(H, x)) == Val.pair(vref(x), OWN_F),
        owner(H, T(H, x)) == Val.pair(vref(x), OWN_T),
        owner(H, Val.a(H.fld("_child_contexts", x))) == Val.pair(vref(x), OWN_C)))


def inv_state(H):
    """I-state: the lifecycle state of a context is one of the four ContextState members"""
    return _ctx_forall(H, lambda x: in_states(H, x, S_INACTIVE, S_OPEN, S_CLOSING, S_CLOSED))


def _inv_key(H, table, cls_fields):
    x = z3.Const("x!key", I)
    k = z3.Const("k!key", Val)
    d = table(H, x)
    c = Val.a(H.d_get(d, k))
    return z3.ForAll([x, k], z3.Implies(z3.And(is_ctx(H, x), H.d_has(d, k)),
                                        z3.And(Val.is_pair(k), Val.is_ref(H.d_get(d, k)), 0 <= c, c < H.alloc,
                                               Val.is_ref(H.fld("types", c)), 0 <= Val.a(H.fld("types", c)), Val.a(H.fld("types", c)) < H.alloc,
                                               H.fld("name", c) == Val.snd(k), types_mem(H, c, Val.fst(k)))),
                     patterns=[H.d_has(d, k)])


def inv_key_R(H):
    """I-key: a container stored under (t, n) has name n and lists t among its types"""
    return _inv_key(H, R, None)


def inv_key_F(H):
    return _inv_key(H, Fa, None)


def inv_conv(H):
    """I-conv: a container stored in a resource table is stored under every one of its own types"""
    x = z3.Const("x!cv", I)
    k = z3.Const("k!cv", Val)
    i = z3.Const("i!cv", I)
    d = R(H, x)
    c = Val.a(H.d_get(d, k))
    ta = Val.a(H.fld("types", c))
    k2 = Val.pair(H.t_item(ta, i), H.fld("name", c))
    return z3.ForAll([x, k, i], z3.Implies(z3.And(is_ctx(H, x), H.d_has(d, k), 0 <= i, i < H.t_len(ta)),
                                           z3.And(H.d_has(d, k2), H.d_get(d, k2) == H.d_get(d, k))),
                     patterns=[z3.MultiPattern(H.d_has(d, k), H.t_item(ta, i))])


def inv_ctxsig(H, reg):
    """I-ctxsig: the `resource_added` signal bound to any Context object is a bound ResourceEvent signal
    (a fact of the descriptor wiring: Context.resource_added = Signal(ResourceEvent))"""
    v = z3.Const("v!cs", Val)
    b = bs_addr(reg)
    sig = bound_sig(H, reg, v, TOPIC_RA)
    s = Val.a(sig)
    return z3.ForAll([v], z3.Implies(z3.And(Val.is_ref(v), subcls(H.fld("__class__", Val.a(v)), con("Context")),
                                            bound_has(H, reg, v, TOPIC_RA)),
                                     z3.And(Val.is_ref(sig), 0 <= s, s < H.alloc, H.isset("_instance", s),
                                            H.fld("event_class", s) == con("ResourceEvent"))),
                     patterns=[H.d_get(b, v)])


# --------------------------------------------------------------------------------------- guarantee

def g_mono(old, new):
    """G-mono: resource and factory tables only grow; an entry, once present, keeps its object"""
    x = z3.Const("x!gm", I)
    k = z3.Const("k!gm", Val)
    out = []
    for table in (R, Fa):
        d = table(old, x)
        out.append(z3.ForAll([x, k], z3.Implies(z3.And(is_ctx(old, x), old.d_has(d, k)),
                                                z3.And(new.d_has(d, k), new.d_get(d, k) == old.d_get(d, k))),
                             patterns=[new.d_has(d, k), new.d_get(d, k)]))
    return z3.And(*out)


def g_init(old, new):
    """initialised contexts stay initialised, ownership tags of allocated containers are fixed"""
    x = z3.Const("x!gi", I)
    return z3.And(
        z3.ForAll([x], z3.Implies(z3.Select(old.g("g:ctx_init"), x), z3.Select(new.g("g:ctx_init"), x)),
                  patterns=[z3.Select(new.g("g:ctx_init"), x)]),
        z3.ForAll([x], z3.Implies(z3.And(0 <= x, x < old.alloc), owner(new, x) == owner(old, x)), patterns=[owner(new, x)]))


def g_closed(old, new):
    """G-st: once teardown has begun a context never reopens; a closed context stays closed"""
    x = z3.Const("x!gc", I)
    return z3.ForAll([x], z3.Implies(is_ctx(old, x), z3.And(
        z3.Implies(in_states(old, x, S_CLOSING, S_CLOSED), in_states(new, x, S_CLOSING, S_CLOSED)),
        z3.Implies(state_of(old, x) == S_CLOSED, state_of(new, x) == S_CLOSED))),
        patterns=[state_of(new, x)])


# --------------------------------------------------------------------------------------- helpers for posts

def table_extended(F, d, name, tup, value_obj):
    """dict d (address) in new = dict d in old  +  {(t, name) -> value_obj | t in tup}; old entries keep their objects"""
    k = z3.Const("k!te", Val)
    newkey = z3.And(Val.is_pair(k), Val.snd(k) == name, tup_mem(F.new, tup, Val.fst(k)))
    return [
        ("keys", z3.ForAll([k], F.new.d_has(d, k) == z3.Or(F.old.d_has(d, k), newkey), patterns=[F.new.d_has(d, k)])),
        ("old-entries-kept", z3.ForAll([k], z3.Implies(F.old.d_has(d, k), F.new.d_get(d, k) == F.old.d_get(d, k)), patterns=[F.new.d_get(d, k)])),
        ("new-entries-are-the-object", z3.ForAll([k], z3.Implies(z3.And(newkey, z3.Not(F.old.d_has(d, k))), F.new.d_get(d, k) == value_obj),
                                                 patterns=[F.new.d_get(d, k)])),
    ]


def one_event(F, c, types_tup, name, description, is_factory):
    """exactly one ResourceEvent with this payload was recorded on the context's own resource_added signal,
    nothing on any other signal"""
    reg = F.eng.reg
    sig = ctx_sig(F.new, reg, c)
    sa = Val.a(sig)
    x = z3.Const("x!oe", I)
    n_old = z3.Select(F.old.g("g:ev_len"), sa)
    e = z3.Select(z3.Select(F.new.g("g:ev_item"), sa), n_old)
    ea = Val.a(e)
    return [
        ("event-on-own-signal", z3.And(bound_has(F.new, reg, vref(c), TOPIC_RA), z3.Select(F.new.g("g:ev_len"), sa) == n_old + 1,
                                       z3.Implies(bound_has(F.old, reg, vref(c), TOPIC_RA), sig == ctx_sig(F.old, reg, c)))),
        ("event-payload", z3.And(Val.is_ref(e), F.new.fld("__class__", ea) == con("ResourceEvent"),
                                 F.new.fld("resource_types", ea) == types_tup, F.new.fld("resource_name", ea) == name,
                                 F.new.fld("resource_description", ea) == description, F.new.fld("is_factory", ea) == vbool(is_factory))),
        ("no-event-elsewhere", z3.ForAll([x], z3.Implies(x != sa, z3.Select(F.new.g("g:ev_len"), x) == z3.Select(F.old.g("g:ev_len"), x)),
                                         patterns=[z3.Select(F.new.g("g:ev_len"), x)])),
    ]


def bs_inner(H, reg, c):
    return Val.a(H.d_get(bs_addr(reg), vref(c)))


def only_these_dicts_changed(F, addrs):
    """among the dicts that existed at entry only the listed ones (and the signal binding tables of `self`) changed"""
    return unchanged_on_old(F, ("d_has", "d_get"), except_addrs=addrs)


class _TableSpec(FnSpec):
    """shared: ghost output T = the resolved tuple of types (bound by role: the tuple the loops iterate)"""
    ghost_T_loop = 0
    ghost_C_ctor = "ResourceContainer"

    def ghost_outputs(self, eng, st):
        out = {}
        n = roles.loop_iter_name(eng.fi.node, self.ghost_T_loop)
        if n in st.env:
            out["T"] = st.env[n]
        c = roles.assigned_from_call(eng.fi.node, self.ghost_C_ctor)
        if c in st.env:
            out["C"] = st.env[c]
        return out

    def fresh_ghost_outputs(self, eng, st):
        t = fresh("T")
        sv = eng.typed(st, t, TUP(ANY))
        st.assume(st.t_len(Val.a(t)) >= 0)
        return {"T": sv, "C": eng.typed(st, fresh("C"), INST(self.ghost_C_ctor))}


# =========================================================================================== add_resource

class AddResource(_TableSpec):
    """C03/C13/C18: add_resource registers one fresh container under every (t, name), t in the resolved types,
    after all validation; any raising path leaves every context observably unchanged."""
    qual = "_context.Context.add_resource"
    properties = ("C03", "C13", "C18", "C02", "C01")
    param_types = {"value": ANY, "name": TSTR, "types": ANY, "description": ANY, "teardown_callback": ANY}
    modifies = frozenset({"d_has", "d_get", "d_len", "l_len", "l_item", "g:ev_len", "g:ev_item", "g:q_len", "g:q_item", "g:warns", "g:q_attempts", "fld:source", "fld:topic", "fld:time",
                          "g:owner"})

    def requires(self, F):
        c = F.addr("self")
        return [("initialised-context", is_ctx(F.old, c))]

    def ensures(self, F):
        c = F.addr("self")
        reg = F.eng.reg
        Tt = F.ghost["T"].t if "T" in F.ghost else VNone
        name = F.t("name")
        r = R(F.old, c)
        k = z3.Const("k!ar", Val)
        i = z3.Const("i!ar", I)
        if "T" not in F.ghost or "C" not in F.ghost:
            return [("ghost-outputs-bound", z3.BoolVal(False))]
        cont = F.ghost["C"].t
        td = F.t("teardown_callback")
        tl = T(F.old, c)
        n = F.old.l_len(tl)
        out = [
            ("allowed-only-open-or-closing", in_states(F.old, c, S_OPEN, S_CLOSING)),
            ("validated", z3.And(F.t("value") != VNone, z3.Or(td == VNone, callable_u(td)))),
            ("no-conflict", z3.ForAll([k], z3.Implies(z3.And(Val.is_pair(k), Val.snd(k) == name, tup_mem(F.new, Tt, Val.fst(k))),
                                                      z3.Not(F.old.d_has(r, k))), patterns=[F.old.d_has(r, k)])),
        ]
        # the registered object: one fresh container
        ca = Val.a(cont)
        out += [("container:" + n_, f) for (n_, f) in [
            ("fresh", z3.And(F.fresh(cont),
                                                 F.new.fld("__class__", ca) == con("ResourceContainer"),
                                                 F.new.fld("value", ca) == F.t("value"), F.new.fld("types", ca) == Tt,
                                                 F.new.fld("name", ca) == name, F.new.fld("description", ca) == F.t("description"),
                                                 F.new.fld("is_generated", ca) == vbool(False))),
        ]]
        out += [("resources:" + n_, f) for (n_, f) in table_extended(F, r, name, Tt, cont)]
        out += [
            ("factories-unchanged", z3.And(F.same_at("d_has", Fa(F.old, c)), F.same_at("d_get", Fa(F.old, c)))),
            ("other-dicts-unchanged", only_these_dicts_changed(F, [r, bs_inner(F.old, reg, c)])),
            ("teardown-registered-iff-given", z3.If(td == VNone,
                                                    z3.And(F.new.l_len(tl) == n),
                                                    z3.And(F.new.l_len(tl) == n + 1, F.new.l_item(tl, n) == Val.pair(td, vbool(False))))),
            ("earlier-callbacks-kept", z3.ForAll([i], z3.Implies(z3.And(0 <= i, i < n), F.new.l_item(tl, i) == F.old.l_item(tl, i)),
                                                 patterns=[F.new.l_item(tl, i)])),
            ("other-lists-unchanged", unchanged_on_old(F, ("l_len", "l_item"), except_addrs=[tl])),
        ]
        out += [("event:" + n_, f) for (n_, f) in one_event(F, c, Tt, name, F.t("description"), False)]
        return out

    def raises(self, F):
        c = F.addr("self")
        ok_state = in_states(F.old, c, S_OPEN, S_CLOSING)
        td = F.t("teardown_callback")
        return [
            ("unchanged", observably_unchanged(F)),
            ("wrong-state-raises-RuntimeError", z3.Implies(z3.Not(ok_state), F.exc_is("RuntimeError"))),
            ("error-class", z3.Or(F.exc_is("RuntimeError"), F.exc_is("TypeError"), F.exc_is("ValueError"), F.exc_is("ResourceConflict"))),
            ("none-value-is-rejected", z3.Implies(z3.And(ok_state, F.exc_is("ResourceConflict")), F.t("value") != VNone)),
        ]

    # loop 0: conflict scan (writes nothing); loop 1: insertion
    def _loop0(self, L):
        fn = L.eng.fi.node
        Tt = L.v(roles.loop_iter_name(fn, 0)).t
        c = Val.a(L.v("self").t)
        r = R(L.entry, c)
        j = z3.Const("j!l0", I)
        key = Val.pair(z3.Select(L.it["src"].aux[0], j), L.v("name").t)
        return [("scanned-prefix-is-free", z3.ForAll([j], z3.Implies(z3.And(0 <= j, j < L.it["i"]), z3.Not(L.cur.d_has(r, key))),
                                                     patterns=[z3.Select(L.it["src"].aux[0], j)])),
                ("alloc-monotone", L.cur.alloc >= L.entry.alloc)]

    def _loop1(self, L):
        fn = L.eng.fi.node
        Tt = L.v(roles.loop_iter_name(fn, 1)).t
        cont = L.v(roles.assigned_from_call(fn, "ResourceContainer")).t
        c = Val.a(L.v("self").t)
        r = R(L.entry, c)
        name = L.v("name").t
        j = z3.Const("j!l1", I)
        k = z3.Const("k!l1", Val)
        x = z3.Const("x!l1", I)
        key = Val.pair(z3.Select(L.it["src"].aux[0], j), name)
        E, C = L.entry, L.cur
        return [
            ("inserted-prefix", z3.ForAll([j], z3.Implies(z3.And(0 <= j, j < L.it["i"]), z3.And(C.d_has(r, key), C.d_get(r, key) == cont)),
                                          patterns=[z3.Select(L.it["src"].aux[0], j)])),
            ("only-keys-of-T-added", z3.ForAll([k], z3.Implies(z3.And(C.d_has(r, k), z3.Not(E.d_has(r, k))),
                                                               z3.And(Val.is_pair(k), Val.snd(k) == name, tmem(L.it["src"].aux[0], L.it["src"].aux[1], Val.fst(k)),
                                                                      C.d_get(r, k) == cont)), patterns=[C.d_has(r, k)])),
            ("old-entries-kept", z3.ForAll([k], z3.Implies(E.d_has(r, k), z3.And(C.d_has(r, k), C.d_get(r, k) == E.d_get(r, k))),
                                           patterns=[C.d_get(r, k)])),
            ("other-dicts-unchanged", z3.And(*[z3.ForAll([x], z3.Implies(x != r, z3.Select(C.h(c_), x) == z3.Select(E.h(c_), x)),
                                                         patterns=[z3.Select(C.h(c_), x)]) for c_ in ("d_has", "d_get")])),
            ("alloc-monotone", C.alloc >= E.alloc),
        ]

    def __init__(self):
        self.loops = {0: self._loop0, 1: self._loop1}


def register(reg):
    reg.ghost_comps["g:owner"] = AV
    CTXF = ("g:ctx_init", "fld:_resources", "fld:_resource_factories", "fld:_teardown_callbacks", "fld:_child_contexts")

    def inv_init0(H):
        x = z3.Const("x!i0", I)
        return z3.ForAll([x], z3.Implies(z3.Or(x >= H.alloc, x < 0), z3.Not(z3.Select(H.g("g:ctx_init"), x))),
                         patterns=[z3.Select(H.g("g:ctx_init"), x)])
    reg.invariants += [("I-init0:only-allocated-objects-are-initialised-contexts", inv_init0, ("alloc", "g:ctx_init")),
                       ("I-own:containers-allocated", inv_own_refs, CTXF + ("alloc", "fld:_parent")),
                       ("I-own:contexts-own-their-containers", inv_own_tags, CTXF + ("g:owner",)),
                       ("I-state:state-is-a-ContextState", inv_state, ("g:ctx_init", "fld:_state")),
                       ("I-key:table-keys-match-containers", inv_key_R, CTXF + ("d_has", "d_get", "fld:name", "fld:types", "t_len", "t_item", "alloc")),
                       ("I-key:factory-keys-match-factories", inv_key_F, CTXF + ("d_has", "d_get", "fld:name", "fld:types", "t_len", "t_item", "alloc")),
                       ("I-conv:container-registered-under-all-its-types", inv_conv, CTXF + ("d_has", "d_get", "fld:name", "fld:types", "t_len", "t_item", "alloc"),
                        {"lazy": True})]
    reg.guarantees += [("G-mono:tables-only-grow", g_mono, CTXF + ("d_has", "d_get")),
                       ("G-init:initialised-and-owned-stay-so", g_init, ("g:ctx_init", "g:owner")),
                       ("G-st:closed-is-monotone", g_closed, ("g:ctx_init", "fld:_state"))]
    reg.ext_calls["_context.resource_name_re.fullmatch"] = lambda eng, st, pos, kw, node: [Res(st, SV(vbool(name_ok_u(pos[0].t)), TBOOL))]
    reg.add(AddResource)
