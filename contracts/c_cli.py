"""C16: _cli.run - configuration precedence and service selection of `asphalt run`."""
import z3
from pyvc.smt import *
from pyvc.state import *
from pyvc.specs import FnSpec, Frame
from pyvc import roles

RUNQ = "_cli.run"
MERGE = "_utils.merge_config"


def _truthy_str(v):
    """truth value of an Optional[str]"""
    return z3.And(v != VNone, v != sid(""))


class CliRun(FnSpec):
    """C16: `asphalt run`:
      files: every file's document is merged over the configuration accumulated so far, in the order given (merge_config = C17);
      --set: the key is split at unescaped dots and every part has its escaped dots replaced; the YAML-parsed value is stored under the last part;
      service: no services -> error; else the one named by --service, else by ASPHALT_SERVICE (KeyError -> error); else the only one; else
      `default`; else error; the selected section is merged over the remaining top-level keys; run_application is called exactly once, last, with
      the component's type and options - and never when the command fails."""
    qual = RUNQ
    properties = ("C16",)
    param_types = {"configfile": TUP(ANY), "service": OPT(TSTR), "set_": TUP(TSTR)}
    modifies = "rely"
    may_raise = True
    check_guarantee = False
    pure_exprs = ()

    def requires(self, F):
        return []

    def init_ghost(self, eng, st):
        st.ghost["last_yaml"] = None
        st.ghost["n_run"] = 0
        # a join over a generator that only builds the text of an error message: evaluated as an unknown pure value (A-DIAG)
        self.pure_exprs = roles.diagnostic_joins(eng.fi.node)

    def after_opaque_call(self, eng, st_before, st_after, f, args, result, exc, anchor):
        st_after.ghost = dict(st_after.ghost)
        if "yaml.load" in anchor and exc is None:
            st_after.ghost["last_yaml"] = result.t
        if "run_application" in anchor:
            st_after.ghost["n_run"] = st_after.ghost["n_run"] + 1

    def on_opaque_call(self, eng, st, f, args, anchor):
        if "run_application" in anchor:
            # the last step: after the service section was merged over the top level
            merges = [e for e in st.trace if e[0] == "spec_ret" and e[1] == MERGE]
            pops = [e for e in st.trace if e[0] == "dpop"]
            eng.oblige(st, "post", "starts:once-after-the-service-section-was-merged", z3.BoolVal(bool(merges) and st.ghost["n_run"] == 0), anchor)

    def on_spec_call(self, eng, st, qual, args, anchor):
        if qual == "_runner.run_application":
            merges = [e for e in st.trace if e[0] == "spec_ret" and e[1] == MERGE]
            eng.oblige(st, "post", "starts:once-after-the-service-section-was-merged", z3.BoolVal(bool(merges) and st.ghost["n_run"] == 0), anchor)
            st.ghost = dict(st.ghost)
            st.ghost["n_run"] = st.ghost["n_run"] + 1
            return
        if qual != MERGE:
            return
        fn = eng.fi.node
        cfg = st.env.get(roles.assigned_from_call(fn, "merge_config", 0))
        eng.oblige(st, "post", "merge:over-the-configuration-accumulated-so-far",
                   args["original"].t == cfg.t if cfg is not None else z3.BoolVal(False), anchor)
        tags = list(st.tags)
        in_file_loop = "loop0" in tags and tags[len(tags) - 1 - tags[::-1].index("loop0") + 1: len(tags) - tags[::-1].index("loop0") + 1] == ["iter"]
        if in_file_loop:
            ly = st.ghost.get("last_yaml")
            eng.oblige(st, "post", "files:each-document-merged-in-the-order-given",
                       args["overrides"].t == ly if ly is not None else z3.BoolVal(False), anchor)
            return
        # the service merge: which section?
        services = st.env.get(roles.assigned_from_call(fn, "pop", 0))       # services = config.pop("services", {})
        svc = st.env.get("service")                                          # the click option (parameter name = command line interface)
        if services is None or svc is None or strip_opt(services.ty).kind != "dict":
            eng.oblige(st, "post", "service:selection-ladder", z3.BoolVal(False), anchor)
            return
        S = Val.a(services.t)
        n = st.d_len(S)
        firsts = [e for e in st.trace if e[0] == "first-value"]
        only = st.d_get(S, firsts[-1][2]) if firsts else None
        named = _truthy_str(svc.t)
        ov = args["overrides"].t
        want = z3.If(named, z3.And(st.d_has(S, svc.t), ov == st.d_get(S, svc.t)),
                     z3.If(n == 1, (ov == only) if only is not None else z3.BoolVal(False),
                           z3.And(st.d_has(S, sid("default")), ov == st.d_get(S, sid("default")))))
        eng.oblige(st, "post", "service:named-else-the-only-one-else-default", z3.And(n != 0, want), anchor)
        env_calls = [e for e in st.trace if e[0] in ("opaque",) and "getenv" in str(e[4])]
        st.ghost = dict(st.ghost)
        st.ghost["service_merge_done"] = True

    def _loop0(self, L):
        return [("alloc-monotone", L.cur.alloc >= L.entry.alloc)]

    def _loop1(self, L):
        """for override in set_: ... keys = [unescape(k) for k in re.split(unescaped-dot, key)]; ...; section[keys[-1]] = parsed_value"""
        from pyvc.smt import split_len, split_item, str_replace
        out = [("alloc-monotone", L.cur.alloc >= L.entry.alloc)]
        st = L.cur_st
        tr = st.trace[len(L.entry_st.trace):]
        stores = [e for e in tr if e[0] == "dstore"]
        fn_ = L.eng.fi.node
        n_keys, n_key = roles.list_indexed_last_in_store(fn_), roles.unpack_targets_from_call(fn_, "split", 0)[0]
        if n_keys in st.env and n_key in st.env and stores:
            keys = Val.a(st.env[n_keys].t)
            key = st.env[n_key].t
            pat = None
            for n in __import__("ast").walk(L.eng.fi.node):
                if isinstance(n, __import__("ast").Call) and __import__("ast").unparse(n.func) == "re.split" and isinstance(n.args[0], __import__("ast").Constant):
                    pat = sid(n.args[0].value)
            mx = Val.int(z3.IntVal(-2))
            i = z3.Const("i!ck", I)
            H = L.cur
            ok_keys = z3.And(H.l_len(keys) == split_len(key, pat, mx),
                             z3.ForAll([i], z3.Implies(z3.And(0 <= i, i < H.l_len(keys)),
                                                       H.l_item(keys, i) == str_replace(split_item(key, pat, mx, i), sid("\\."), sid("."))),
                                       patterns=[H.l_item(keys, i)])) if pat is not None else z3.BoolVal(False)
            out.append(("set:key-split-at-unescaped-dots-and-unescaped", ok_keys))
            last = stores[-1]
            ly = st.ghost.get("last_yaml")
            kk = last[2].t if isinstance(last[2], SV) else last[2]
            vv = last[3].t if isinstance(last[3], SV) else last[3]
            out.append(("set:parsed-value-stored-under-the-last-key-part",
                        z3.And(kk == H.l_item(keys, H.l_len(keys) - 1), vv == ly if ly is not None else z3.BoolVal(False))))
        return out

    def local_ensures(self, F):
        g = F.new_st.ghost
        return [("starts-the-application-exactly-once", z3.BoolVal(g["n_run"] == 1 and bool(g.get("service_merge_done"))))]

    def local_raises(self, F):
        tr = F.new_st.trace
        g = F.new_st.ghost
        own = [e for e in tr if e[0] == "new_exc"]
        out = []
        if own and not [e for e in tr if (e[0] == "opaque-raise" and "run_application" in str(e[4])) or (e[0] == "spec_raise" and e[1] == "_runner.run_application")]:
            out.append(("a-failing-command-starts-nothing", z3.BoolVal(g["n_run"] == 0)))
        return out

    def __init__(self):
        self.loops = {0: self._loop0, 1: self._loop1, 2: self._loop0}


def register(reg):
    from pyvc.smt import split_len, split_item

    def re_split(eng, st, pos, kw, node):
        """re.split(pattern, string): a fresh list of strings, an uninterpreted function of (pattern, string); at least one item"""
        st.uses.add("A-RE")
        mx = Val.int(z3.IntVal(-2))          # marks a regular-expression split
        ln = split_len(pos[1].t, pos[0].t, mx)
        items = fresh("resplit_items", IV)
        i = z3.Const("i!rs", I)
        st.assume(ln >= 1, z3.ForAll([i], z3.Select(items, i) == split_item(pos[1].t, pos[0].t, mx, i), patterns=[z3.Select(items, i)]))
        a = st.new_list(items, ln)
        return [Res(st, SV(vref(a), LIST(TSTR)))]
    reg.ext_calls["re.split"] = re_split

    def os_getenv(eng, st, pos, kw, node):
        st.uses.add("A-ENV")
        return [Res(st, eng.typed(st, fresh("getenv"), OPT(TSTR)))]
    reg.ext_calls["os.getenv"] = os_getenv
    reg.assumptions_text["A-ENV"] = "os.getenv(name) returns None or a string and has no other effect"
    reg.assumptions_text["A-RE"] = "re.split(pattern, s) returns a non-empty list of strings determined by (pattern, s); no other effect"
    reg.add(CliRun)
