"""Contracts: Context.add_resource_factory, get_resource_nowait, get_resources, __init__ (C02, C03, C04, C13, C18)."""
import os
import ast
import z3
from pyvc.smt import *
from pyvc.state import *
from pyvc.specs import FnSpec, Frame, LoopCtx
from pyvc import roles
from pyvc.comps import tmem, tidx
from .c_event import bound_has, bound_sig, bs_addr
from .c_context import *
from .c_context_tables import *
from .c_context_tables import _TableSpec

NO_EXCLUDE = bool(os.environ.get("PYVC_NO_EXCLUDE"))


# =========================================================================================== add_resource_factory

class AddResourceFactory(_TableSpec):
    """C03/C13/C18: symmetric to add_resource over the factory table; allowed only while open."""
    qual = "_context.Context.add_resource_factory"
    properties = ("C03", "C13", "C18", "C02", "C04")
    param_types = {"factory_callback": ANY, "name": TSTR, "types": ANY, "description": ANY}
    modifies = frozenset({"d_has", "d_get", "d_len", "g:ev_len", "g:ev_item", "g:q_len", "g:q_item", "g:warns", "g:q_attempts", "fld:source", "fld:topic", "fld:time", "g:owner"})
    ghost_C_ctor = "ResourceFactory"

    def requires(self, F):
        return [("initialised-context", is_ctx(F.old, F.addr("self")))]

    def ensures(self, F):
        if "T" not in F.ghost or "C" not in F.ghost:
            return [("ghost-outputs-bound", z3.BoolVal(False))]
        c = F.addr("self")
        reg = F.eng.reg
        Tt, fac = F.ghost["T"].t, F.ghost["C"].t
        name = F.t("name")
        f = Fa(F.old, c)
        k = z3.Const("k!arf", Val)
        fa = Val.a(fac)
        out = [
            ("allowed-only-open", in_states(F.old, c, S_OPEN)),
            ("None-is-not-a-type", z3.Not(tup_mem(F.new, Tt, VNone))),
            ("no-conflict", z3.ForAll([k], z3.Implies(z3.And(Val.is_pair(k), Val.snd(k) == name, tup_mem(F.new, Tt, Val.fst(k))),
                                                      z3.Not(F.old.d_has(f, k))), patterns=[F.old.d_has(f, k)])),
            ("factory:fresh", z3.And(F.fresh(fac), F.new.fld("__class__", fa) == con("ResourceFactory"),
                                     F.new.fld("callback", fa) == F.t("factory_callback"), F.new.fld("types", fa) == Tt,
                                     F.new.fld("name", fa) == name, F.new.fld("description", fa) == F.t("description"))),
        ]
        out += [("factories:" + n_, g) for (n_, g) in table_extended(F, f, name, Tt, fac)]
        out += [
            ("resources-unchanged", z3.And(F.same_at("d_has", R(F.old, c)), F.same_at("d_get", R(F.old, c)))),
            ("other-dicts-unchanged", only_these_dicts_changed(F, [f, bs_inner(F.old, reg, c)])),
            ("no-teardown-callback", unchanged_on_old(F, ("l_len", "l_item"))),
        ]
        out += [("event:" + n_, g) for (n_, g) in one_event(F, c, Tt, name, F.t("description"), True)]
        return out

    def raises(self, F):
        c = F.addr("self")
        return [
            ("unchanged", observably_unchanged(F)),
            ("wrong-state-raises-RuntimeError", z3.Implies(z3.Not(in_states(F.old, c, S_OPEN)), F.exc_is("RuntimeError"))),
        ]

    def _loop0(self, L):
        fn = L.eng.fi.node
        Tt = L.v(roles.loop_iter_name(fn, 0)).t
        c = Val.a(L.v("self").t)
        f = Fa(L.entry, c)
        j = z3.Const("j!l0", I)
        key = Val.pair(z3.Select(L.it["src"].aux[0], j), L.v("name").t)
        return [("scanned-prefix-is-free", z3.ForAll([j], z3.Implies(z3.And(0 <= j, j < L.it["i"]), z3.Not(L.cur.d_has(f, key))),
                                                     patterns=[z3.Select(L.it["src"].aux[0], j)])),
                ("alloc-monotone", L.cur.alloc >= L.entry.alloc)]

    def _loop1(self, L):
        fn = L.eng.fi.node
        Tt = L.v(roles.loop_iter_name(fn, 1)).t
        fac = L.v(roles.assigned_from_call(fn, "ResourceFactory")).t
        c = Val.a(L.v("self").t)
        f = Fa(L.entry, c)
        name = L.v("name").t
        j = z3.Const("j!l1", I)
        k = z3.Const("k!l1", Val)
        x = z3.Const("x!l1", I)
        key = Val.pair(z3.Select(L.it["src"].aux[0], j), name)
        E, C = L.entry, L.cur
        return [
            ("inserted-prefix", z3.ForAll([j], z3.Implies(z3.And(0 <= j, j < L.it["i"]), z3.And(C.d_has(f, key), C.d_get(f, key) == fac)),
                                          patterns=[z3.Select(L.it["src"].aux[0], j)])),
            ("only-keys-of-T-added", z3.ForAll([k], z3.Implies(z3.And(C.d_has(f, k), z3.Not(E.d_has(f, k))),
                                                               z3.And(Val.is_pair(k), Val.snd(k) == name, tmem(L.it["src"].aux[0], L.it["src"].aux[1], Val.fst(k)),
                                                                      C.d_get(f, k) == fac)), patterns=[C.d_has(f, k)])),
            ("old-entries-kept", z3.ForAll([k], z3.Implies(E.d_has(f, k), z3.And(C.d_has(f, k), C.d_get(f, k) == E.d_get(f, k))),
                                           patterns=[C.d_get(f, k)])),
            ("other-dicts-unchanged", z3.And(*[z3.ForAll([x], z3.Implies(x != f, z3.Select(C.h(c_), x) == z3.Select(E.h(c_), x)),
                                                         patterns=[z3.Select(C.h(c_), x)]) for c_ in ("d_has", "d_get")])),
            ("alloc-monotone", C.alloc >= E.alloc),
        ]

    def __init__(self):
        self.loops = {0: self._loop0, 1: self._loop1}


# =========================================================================================== get_resource_nowait

class GetResourceNowait(FnSpec):
    """C03/C04/C13/C18: lookup = table entry; first lookup through a factory generates exactly once, stores the
    product (is_generated) under the factory's free types and announces it; failures register nothing."""
    qual = "_context.Context.get_resource_nowait"
    properties = ("C03", "C04", "C13", "C18", "C02")
    param_types = {"type": ANY, "name": TSTR, "optional": ANY}
    modifies = "rely"           # a factory (user code) may run: callers see the heap change under the rely
    excluded_regions = {"F6": "another task (or the factory itself) registers the requested (type, name) in this context "
                              "while the product is being produced"}

    def requires(self, F):
        return [("initialised-context", is_ctx(F.old, F.addr("self")))]

    def key(self, F):
        return Val.pair(F.t("type"), F.t("name"))

    def pure_when(self, F):
        """a hit, a miss without factory and a wrong-state call touch nothing"""
        c = F.addr("self")
        key = self.key(F)
        hit = z3.And(F.old.d_has(R(F.old, c), key), F.old.d_get(R(F.old, c), key) != VNone)
        return z3.Or(hit, z3.Not(F.old.d_has(Fa(F.old, c), key)), z3.Not(in_states(F.old, c, S_OPEN, S_CLOSING)))

    def after_opaque_call(self, eng, st_before, st_after, f, args, result, exc, anchor):
        if NO_EXCLUDE:
            return
        # known finding F6 (excluded region): nobody registers the requested key during the generation
        c = Val.a(st_after.env["self"].t)
        key = Val.pair(st_after.env["type"].t, st_after.env["name"].t)
        st_after.assume(z3.Not(st_after.d_has(Val.a(st_after.fld("_resources", c)), key)))
        st_after.uses.add("EXCLUDED-REGION:F6")

    def ensures(self, F):
        c = F.addr("self")
        key = self.key(F)
        r_old, f_old = R(F.old, c), Fa(F.old, c)
        hit = z3.And(F.old.d_has(r_old, key), F.old.d_get(r_old, key) != VNone)
        res = F.result.t
        hitc = Val.a(F.old.d_get(r_old, key))
        viaf = z3.And(z3.Not(hit), F.old.d_has(f_old, key))
        newc = Val.a(F.new.d_get(r_old, key))
        return [
            ("allowed-only-open-or-closing", in_states(F.old, c, S_OPEN, S_CLOSING)),
            ("hit-returns-stored-value-and-changes-nothing", z3.Implies(hit, res == F.old.fld("value", hitc))),
            ("miss-without-factory-returns-None-only-if-optional",
             z3.Implies(z3.And(z3.Not(hit), z3.Not(F.old.d_has(f_old, key))), z3.And(res == VNone, F.eng.truth(F.old_st.copy(), F["optional"])))),
            ("generated:requested-key-registered", z3.Implies(viaf, z3.And(F.new.d_has(r_old, key), F.new.d_get(r_old, key) != VNone))),
            ("generated:returns-table-entry", z3.Implies(viaf, res == F.new.fld("value", newc))),
            ("generated:container-is-generated", z3.Implies(viaf, F.new.fld("is_generated", newc) == vbool(True))),
            ("generated:named-like-the-factory", z3.Implies(viaf, F.new.fld("name", newc) == F.t("name"))),
        ] + self.product_clauses(F, viaf, res) + self.event_clauses(F, viaf, newc)

    def product_clauses(self, F, viaf, res):
        # the synchronous API never hands out (or registers) the coroutine of an asynchronous factory
        return [("generated:product-is-not-a-coroutine", z3.Implies(viaf, z3.Not(iscoroutine_u(res))))]

    def event_clauses(self, F, viaf, newc):
        """C18: the announcement of a generation carries the types actually registered, the name, the description"""
        c = F.addr("self")
        reg = F.eng.reg
        sig = ctx_sig(F.new, reg, c)
        sa = Val.a(sig)
        n_new = z3.Select(F.new.g("g:ev_len"), sa)
        e = z3.Select(z3.Select(F.new.g("g:ev_item"), sa), n_new - 1)
        ea = Val.a(e)
        parts = [
            ("recorded", n_new >= 1),
            ("is-a-ResourceEvent", F.new.fld("__class__", ea) == con("ResourceEvent")),
            ("types-are-the-registered-types", F.new.fld("resource_types", ea) == F.new.fld("types", newc)),
            ("name", F.new.fld("resource_name", ea) == F.t("name")),
            ("description", F.new.fld("resource_description", ea) == F.new.fld("description", newc)),
            ("not-a-factory-event", F.new.fld("is_factory", ea) == vbool(False)),
        ]
        return [("generated:event:" + n_, z3.Implies(viaf, f)) for (n_, f) in parts]

    def local_ensures(self, F):
        """about this activation (not visible to callers): factory call count, what it wrote, what it announced"""
        c = F.addr("self")
        key = self.key(F)
        r_old, f_old = R(F.old, c), Fa(F.old, c)
        hit = z3.And(F.old.d_has(r_old, key), F.old.d_get(r_old, key) != VNone)
        viaf = z3.And(z3.Not(hit), F.old.d_has(f_old, key))
        fac = Val.a(F.old.d_get(f_old, key))
        cb = F.old.fld("callback", fac)
        calls = F.new.h("mycalls")
        v = z3.Const("v!gl", Val)
        d = z3.Const("d!gl", I)
        nd = F.new_st.ghost.get("n_dispatch", 0)
        return [
            ("factory-called-exactly-once-iff-generated", z3.And(z3.Implies(viaf, z3.Select(calls, cb) == 1),
                                                                 z3.ForAll([v], z3.Implies(z3.Or(z3.Not(viaf), v != cb), z3.Select(calls, v) == 0),
                                                                           patterns=[z3.Select(calls, v)]))),
            ("writes-only-own-resource-table", z3.ForAll([d], z3.Implies(z3.Select(F.new.h("w_dict"), d),
                                                                         z3.Or(d == r_old, d == bs_addr(F.eng.reg), d >= F.old.alloc,
                                                                               d == bs_inner(F.old, F.eng.reg, c))),
                                                         patterns=[z3.Select(F.new.h("w_dict"), d)])),
            ("one-event-iff-generated", z3.If(viaf, z3.BoolVal(nd == 1), z3.BoolVal(nd == 0))),
        ]

    def raises(self, F):
        c = F.addr("self")
        key = self.key(F)
        r_old, f_old = R(F.old, c), Fa(F.old, c)
        ok_state = in_states(F.old, c, S_OPEN, S_CLOSING)
        hit = z3.And(F.old.d_has(r_old, key), F.old.d_get(r_old, key) != VNone)
        return [
            ("wrong-state-raises-RuntimeError-unchanged", z3.Implies(z3.Not(ok_state), z3.And(F.exc_is("RuntimeError"), observably_unchanged(F)))),
            ("never-raises-on-a-hit", z3.Implies(ok_state, z3.Not(hit))),
            ("ResourceNotFound-only-on-a-miss-unchanged",
             z3.Implies(z3.And(ok_state, z3.Not(F.old.d_has(f_old, key))), z3.And(F.exc_is("ResourceNotFound"), observably_unchanged(F)))),
        ]

    def local_raises(self, F):
        """a raising lookup registers nothing and announces nothing (AsyncResourceError, factory failure, miss)"""
        nd = F.new_st.ghost.get("n_dispatch", 0)
        return [("registers-nothing", F.new.h("w_dict") == z3.K(I, z3.BoolVal(False))),
                ("announces-nothing", z3.BoolVal(nd == 0)),
                ("async-factory-raises-AsyncResourceError", z3.BoolVal(True))]

    # loop 0: store loop over free_types
    def _loop0(self, L):
        fn = L.eng.fi.node
        Tt = L.v(roles.loop_iter_name(fn, 0)).t
        cont = L.v(roles.assigned_from_call(fn, "ResourceContainer")).t
        c = Val.a(L.v("self").t)
        r = R(L.entry, c)
        j = z3.Const("j!g0", I)
        k = z3.Const("k!g0", Val)
        x = z3.Const("x!g0", I)
        v_ = z3.Const("v!g0", Val)
        # name under which the product is stored: the factory's name (bound by role: second field of the stored keys)
        fname = L.entry.fld("name", Val.a(cont))
        key = Val.pair(z3.Select(L.it["src"].aux[0], j), fname)
        E, C = L.entry, L.cur
        return [
            ("inserted-prefix", z3.ForAll([j], z3.Implies(z3.And(0 <= j, j < L.it["i"]), z3.And(C.d_has(r, key), C.d_get(r, key) == cont)),
                                          patterns=[z3.Select(L.it["src"].aux[0], j)])),
            # the same fact by membership (trigger: a lookup of a key (v, name) in the table)
            ("inserted-members", z3.ForAll([v_], z3.Implies(z3.And(tmem(L.it["src"].aux[0], L.it["src"].aux[1], v_),
                                                                   tidx(L.it["src"].aux[0], L.it["src"].aux[1], v_) < L.it["i"]),
                                                            z3.And(C.d_has(r, Val.pair(v_, fname)), C.d_get(r, Val.pair(v_, fname)) == cont)),
                                           patterns=[C.d_get(r, Val.pair(v_, fname)), C.d_has(r, Val.pair(v_, fname))])),
            ("only-free-keys-added", z3.ForAll([k], z3.Implies(z3.And(C.d_has(r, k), z3.Not(E.d_has(r, k))),
                                                               z3.And(Val.is_pair(k), Val.snd(k) == fname, tmem(L.it["src"].aux[0], L.it["src"].aux[1], Val.fst(k)),
                                                                      C.d_get(r, k) == cont)), patterns=[C.d_has(r, k)])),
            ("old-entries-kept", z3.ForAll([k], z3.Implies(E.d_has(r, k), z3.And(C.d_has(r, k), C.d_get(r, k) == E.d_get(r, k))),
                                           patterns=[C.d_get(r, k)])),
            ("other-dicts-unchanged", z3.And(*[z3.ForAll([x], z3.Implies(x != r, z3.Select(C.h(c_), x) == z3.Select(E.h(c_), x)),
                                                         patterns=[z3.Select(C.h(c_), x)]) for c_ in ("d_has", "d_get")])),
            ("only-own-table-written", z3.ForAll([x], z3.Implies(z3.Select(C.h("w_dict"), x), z3.Or(x == r, z3.Select(E.h("w_dict"), x))),
                                                 patterns=[z3.Select(C.h("w_dict"), x)])),
            ("alloc-monotone", C.alloc >= E.alloc),
        ]

    def _exit0(self, L):
        """proof steps at the exit of the store loop: the requested key is among the stored ones"""
        fn = L.eng.fi.node
        cont = L.v(roles.assigned_from_call(fn, "ResourceContainer")).t
        c = Val.a(L.v("self").t)
        r = R(L.entry, c)
        C = L.cur
        typ, name = L.v("type").t, L.v("name").t
        fname = C.fld("name", Val.a(cont))
        flt = L.cur_st.ghost.get("filters", [None])[-1]
        if flt is None:
            return [("store-loop-iterates-the-free-types", z3.BoolVal(False))]
        free_items, free_len = L.it["src"].aux
        return [
            ("factory-name-is-the-requested-name", fname == name),
            ("requested-type-is-one-of-the-factory-types", tmem(flt["items"], flt["ln"], typ)),
            ("store-loop-iterates-the-free-types", z3.And(free_items == flt["r_items"], free_len == flt["r_len"])),
            ("requested-type-is-free", tmem(free_items, free_len, typ)),
            ("requested-key-holds-the-product", z3.And(C.d_has(r, Val.pair(typ, name)), C.d_get(r, Val.pair(typ, name)) == cont)),
        ]

    def __init__(self):
        self.loops = {0: self._loop0}
        self.exit_lemmas = {0: self._exit0}


class GetResource(GetResourceNowait):
    """C03/C04/C06/C13/C18: the coroutine lookup: same contract as get_resource_nowait; additionally awaits an awaitable
    product before storing it.  A hit, a miss and a wrong-state call neither suspend nor touch anything (pure_when)."""
    qual = "_context.Context.get_resource"
    properties = ("C03", "C04", "C06", "C13", "C18", "C02", "C19")
    suspends = True

    def after_await(self, eng, st_before, st_after, awaited, result, exc, anchor):
        self.after_opaque_call(eng, st_before, st_after, awaited, [], result, exc, anchor)

    def product_clauses(self, F, viaf, res):
        return []

    def local_raises(self, F):
        nd = F.new_st.ghost.get("n_dispatch", 0)
        return [("registers-nothing", F.new.h("w_dict") == z3.K(I, z3.BoolVal(False))),
                ("announces-nothing", z3.BoolVal(nd == 0))]


# =========================================================================================== get_resources

class GetResources(FnSpec):
    """C02: get_resources(type) = {n: R[(type, n)].value}: agrees with the keyed lookups on the visible set."""
    qual = "_context.Context.get_resources"
    properties = ("C02",)
    uses_invariants = ("I-conv:container-registered-under-all-its-types",)
    param_types = {"type": ANY}
    ret_type = DICT(TSTR, ANY)
    modifies = frozenset()
    may_raise = False

    def requires(self, F):
        return [("initialised-context", is_ctx(F.old, F.addr("self")))]

    def ensures(self, F):
        c = F.addr("self")
        r = R(F.old, c)
        n = z3.Const("n!grs", Val)
        ra = Val.a(F.result.t)
        key = Val.pair(F.t("type"), n)
        return [
            ("fresh-mapping", F.fresh(F.result.t)),
            ("exactly-the-names-registered-for-type", z3.ForAll([n], F.new.d_has(ra, n) == F.old.d_has(r, key), patterns=[F.new.d_has(ra, n)])),
            ("values-agree-with-keyed-lookup", z3.ForAll([n], z3.Implies(F.new.d_has(ra, n),
                                                                        F.new.d_get(ra, n) == F.old.fld("value", Val.a(F.old.d_get(r, key)))),
                                                         patterns=[F.new.d_get(ra, n)])),
        ]


# =========================================================================================== __init__

def is_cc(H, v):
    """v (a Val) is a ComponentContext"""
    return z3.And(Val.is_ref(v), subcls(H.fld("__class__", Val.a(v)), con("ComponentContext")))


class ContextInit(FnSpec):
    """C02/C04/C12: a new context snapshots the non-generated resources and all factories of its parent - the explicit
    parent, else the current context, skipping ComponentContexts - into fresh tables; the parent is not written."""
    qual = "_context.Context.__init__"
    properties = ("C02", "C04", "C12", "C13")
    param_types = {"parent": OPT(INST("Context"))}
    modifies = frozenset({"fld:_state", "fld:_teardown_callbacks", "fld:_child_contexts", "fld:_parent", "fld:_resources",
                          "fld:_resource_factories", "fld:_task_group", "g:ctx_init", "g:owner", "g:td_reg"})
    uses_invariants = ("I-td:teardown-lists-are-token-stacks", "I-stk:exit-stack-as-pushed-by-aenter")
    may_raise = False

    def requires(self, F):
        s = F.addr("self")
        p = F.t("parent")
        cur = F.old.h("g:curctx")
        return [
            ("self-is-a-new-context-object", z3.And(Val.is_ref(F.t("self")), 0 <= s, s < F.old.alloc, z3.Not(is_ctx(F.old, s)))),
            ("explicit-parent-is-an-initialised-context", z3.Or(p == VNone, z3.And(Val.is_ref(p), is_ctx(F.old, Val.a(p)),
                                                                                   z3.Implies(is_cc(F.old, p), z3.Select(F.old.g("g:cc_init"), Val.a(p)))))),
            ("current-context-is-an-initialised-context", z3.Or(cur == VNone, z3.And(Val.is_ref(cur), is_ctx(F.old, Val.a(cur)),
                                                                                     z3.Implies(is_cc(F.old, cur), z3.Select(F.old.g("g:cc_init"), Val.a(cur)))))),
        ]

    def chosen_parent(self, F):
        """P0: explicit parent if given, else the current context (None = root)"""
        p = F.t("parent")
        return z3.If(p != VNone, p, F.old.h("g:curctx"))

    def ghost_exit(self, eng, st, kind):
        if kind != "return":
            return
        s = Val.a(st.env["self"].t)
        st.heap["g:ctx_init"] = z3.Store(st.heap["g:ctx_init"], s, True)
        for f, tag in (("_resources", OWN_R), ("_resource_factories", OWN_F), ("_teardown_callbacks", OWN_T), ("_child_contexts", OWN_C)):
            st.heap["g:owner"] = z3.Store(st.heap["g:owner"], Val.a(st.fld(f, s)), Val.pair(vref(s), tag))
        # no teardown callback has been registered yet: token counter of the fresh list starts at 0
        if "g:td_reg" in st.heap:
            st.heap["g:td_reg"] = z3.Store(st.heap["g:td_reg"], Val.a(st.fld("_teardown_callbacks", s)), z3.IntVal(0))

    def ensures(self, F):
        s = F.addr("self")
        P0 = self.chosen_parent(F)
        par = F.new.fld("_parent", s)
        pa = Val.a(par)
        k = z3.Const("k!ci", Val)
        rn, fn_ = R(F.new, s), Fa(F.new, s)
        x = z3.Const("x!ci", I)
        gen = lambda v: Val.b(F.old.fld("is_generated", Val.a(v)))
        out = [
            ("initialised-inactive", z3.And(is_ctx(F.new, s), state_of(F.new, s) == S_INACTIVE)),
            ("parent-choice", z3.And(z3.Implies(P0 == VNone, par == VNone),
                                     z3.Implies(P0 != VNone, z3.And(z3.Or(par == P0, z3.And(is_cc(F.old, P0), par == F.old.fld("_context", Val.a(P0)))),
                                                                    z3.Not(is_cc(F.old, par)), Val.is_ref(par), is_ctx(F.old, pa))))),
            ("fresh-tables", z3.And(F.fresh(F.new.fld("_resources", s)), F.fresh(F.new.fld("_resource_factories", s)),
                                    F.fresh(F.new.fld("_teardown_callbacks", s)), F.fresh(F.new.fld("_child_contexts", s)),
                                    rn != fn_)),
            ("no-teardown-callbacks-no-children", z3.And(F.new.l_len(T(F.new, s)) == 0,
                                                         F.new.s_hasarr(Val.a(F.new.fld("_child_contexts", s))) == z3.K(Val, z3.BoolVal(False)))),
            ("root-starts-empty", z3.Implies(par == VNone, z3.And(F.new.d_hasarr(rn) == z3.K(Val, z3.BoolVal(False)),
                                                                  F.new.d_hasarr(fn_) == z3.K(Val, z3.BoolVal(False))))),
            ("snapshot:static-resources-only", z3.Implies(par != VNone, z3.ForAll([k],
                F.new.d_has(rn, k) == z3.And(F.old.d_has(R(F.old, pa), k), z3.Not(gen(F.old.d_get(R(F.old, pa), k)))), patterns=[F.new.d_has(rn, k)]))),
            ("snapshot:same-containers", z3.Implies(par != VNone, z3.ForAll([k],
                z3.Implies(F.new.d_has(rn, k), F.new.d_get(rn, k) == F.old.d_get(R(F.old, pa), k)), patterns=[F.new.d_get(rn, k)]))),
            ("snapshot:all-factories", z3.Implies(par != VNone, z3.And(F.new.d_hasarr(fn_) == F.old.d_hasarr(Fa(F.old, pa)),
                                                                       F.new.d_getarr(fn_) == F.old.d_getarr(Fa(F.old, pa))))),
            ("inherits-task-group", z3.Implies(par != VNone, F.new.fld("_task_group", s) == F.old.fld("_task_group", pa))),
            ("no-tokens-yet", z3.And(z3.Select(F.new.g("g:td_reg"), T(F.new, s)) == 0,
                                     z3.ForAll([x], z3.Implies(x < F.old.alloc, F.same_at("g:td_reg", x)), patterns=[z3.Select(F.new.h("g:td_reg"), x)]))),
            ("owner-tags", z3.And(z3.Select(F.new.g("g:owner"), rn) == Val.pair(vref(s), OWN_R),
                                  z3.Select(F.new.g("g:owner"), fn_) == Val.pair(vref(s), OWN_F),
                                  z3.Select(F.new.g("g:owner"), T(F.new, s)) == Val.pair(vref(s), OWN_T),
                                  z3.Select(F.new.g("g:owner"), Val.a(F.new.fld("_child_contexts", s))) == Val.pair(vref(s), OWN_C))),
        ]
        # frame: nothing of any other object is written (in particular nothing of the parent)
        for cmp_ in ("fld:_state", "fld:_teardown_callbacks", "fld:_child_contexts", "fld:_parent", "fld:_resources",
                     "fld:_resource_factories", "fld:_task_group"):
            out.append((f"only-self-written:{cmp_}", z3.ForAll([x], z3.Implies(x != s, F.same_at(cmp_, x)), patterns=[z3.Select(F.new.h(cmp_), x)])))
        out.append(("only-self-initialised", z3.ForAll([x], z3.Implies(x != s, F.same_at("g:ctx_init", x)), patterns=[z3.Select(F.new.h("g:ctx_init"), x)])))
        out.append(("old-owner-tags-kept", z3.ForAll([x], z3.Implies(x < F.old.alloc, F.same_at("g:owner", x)), patterns=[z3.Select(F.new.h("g:owner"), x)])))
        out.append(("existing-containers-untouched", unchanged_on_old(F, ("d_has", "d_get", "d_len", "l_len", "l_item", "s_has", "s_len"))))
        return out

    def _loop0(self, L):
        """while isinstance(self._parent, ComponentContext): self._parent = self._parent._context
        (a ComponentContext reachable as a parent has completed its own __init__: g:cc_init)"""
        s = Val.a(L.v("self").t)
        E, C = L.entry, L.cur
        P0 = E.fld("_parent", s)
        P = C.fld("_parent", s)
        x = z3.Const("x!w0", I)
        return [
            ("parent-is-P0-or-its-backing-context", z3.Or(P == P0, z3.And(is_cc(E, P0), P == E.fld("_context", Val.a(P0))))),
            ("parent-is-an-initialised-context", z3.And(Val.is_ref(P), is_ctx(E, Val.a(P)),
                                                        z3.Implies(is_cc(E, P), z3.Select(E.g("g:cc_init"), Val.a(P))))),
            ("only-own-parent-field-written", z3.ForAll([x], z3.Implies(x != s, z3.Select(C.h("fld:_parent"), x) == z3.Select(E.h("fld:_parent"), x)),
                                                        patterns=[z3.Select(C.h("fld:_parent"), x)])),
        ]

    def __init__(self):
        self.loops = {0: self._loop0}


def register(reg):
    reg.schema.setdefault("ComponentContext", {}).update({"_context": INST("Context")})
    reg.ghost_comps["g:curctx"] = Val
    reg.ghost_comps["g:cc_init"] = AB        # ComponentContext.__init__ completed
    reg.global_types["_context._current_context"] = LIB("ContextVar")
    reg.lib_classes |= {"ContextVar"}

    def cv_get(eng, st, recv, pos, kw, node, awaited):
        st.uses.add("A-CV")
        t = st.heap["g:curctx"]
        return [Res(st, eng.typed(st, t, OPT(INST("Context"))))]
    reg.lib_methods["ContextVar.get"] = cv_get

    # I-par: the backing context of a ComponentContext is an initialised, non-component context
    def i_par(H):
        x = z3.Const("x!ip", I)
        v = H.fld("_context", x)
        return z3.ForAll([x], z3.Implies(z3.Select(H.g("g:cc_init"), x),
                                         z3.And(Val.is_ref(v), is_ctx(H, Val.a(v)), z3.Not(is_cc(H, v)))),
                         patterns=[H.fld("_context", x)])
    reg.invariants.append(("I-par:component-contexts-delegate-to-a-plain-context", i_par, ("g:ctx_init", "g:cc_init", "fld:_context", "fld:__class__")))
    reg.immutable_fields.add(("ComponentContext", "_context"))

    def r_curctx(old, new):
        return new.h("g:curctx") == old.h("g:curctx")
    reg.extra_rely.append(("A-CV:current-context-is-per-task-and-restored-by-callees", r_curctx))
    reg.assumptions_text["A-CV"] = ("contextvars: the current-context variable is per task (other tasks cannot change it) and user "
                                    "callbacks leave it as they found it (balanced async with)")
    def get_type_hints(eng, st, pos, kw, node):
        # A-TYPING: typing.get_type_hints is side-effect free; returns a mapping or raises
        st.uses.add("A-TYPING")
        ok = st.copy()
        d = ok.new_dict(fresh("th_has", KB), fresh("th_get", KV), fresh("th_len", I))
        bad = st.copy()
        bad.tags.append("get_type_hints-raises")
        e = eng.unknown_exception(bad)
        bad.assume(subcls(bad.fld("__class__", Val.a(e.t)), con("Exception")))
        return [Res(ok, SV(vref(d), DICT(TSTR, ANY))), Res(bad, None, e)]
    reg.ext_calls["typing.get_type_hints"] = get_type_hints
    reg.assumptions_text["A-TYPING"] = "typing.get_type_hints / get_origin / get_args are side-effect free (get_type_hints may raise)"
    for s in (AddResourceFactory, GetResourceNowait, GetResource, GetResources, ContextInit):
        reg.add(s)
