"""Contracts for asphalt/core/_context.py - synchronous surface of Context (C02, C03, C04, C13, C18)."""
import ast
import z3
from pyvc.smt import *
from pyvc.state import *
from pyvc.specs import FnSpec, Frame, LoopCtx
from pyvc import roles
from pyvc.comps import tmem
from .c_event import bound_has, bound_sig

S_INACTIVE = con("ContextState.inactive")
S_OPEN = con("ContextState.open")
S_CLOSING = con("ContextState.closing")
S_CLOSED = con("ContextState.closed")
TOPIC_RA = sid("resource_added")

KEY = PAIR(ANY, TSTR)
CTX_SCHEMA = {
    "_state": TCON,
    "_resources": DICT(KEY, INST("ResourceContainer")),
    "_resource_factories": DICT(KEY, INST("ResourceFactory")),
    "_teardown_callbacks": LIST(PAIR(ANY, ANY)),
    "_child_contexts": SET(INST("Context")),
    "_parent": OPT(INST("Context")),
    "_task_group": LIB("TaskGroup"),
    "_exit_stack": LIB("AsyncExitStack"),
}


def state_of(H, c):
    return H.fld("_state", c)


def in_states(H, c, *states):
    return z3.Or(*[state_of(H, c) == s for s in states])


def R(H, c):
    """address of the resource table of context c"""
    return Val.a(H.fld("_resources", c))


def Fa(H, c):
    return Val.a(H.fld("_resource_factories", c))


def T(H, c):
    return Val.a(H.fld("_teardown_callbacks", c))


def is_ctx(H, x):
    """x is an initialised context (ghost flag set at the end of Context.__init__; I-init0: only allocated objects)"""
    return z3.Select(H.g("g:ctx_init"), x)


def ctx_sig(H, reg, c):
    """the bound resource_added signal of context c (a Val)"""
    return bound_sig(H, reg, vref(c), TOPIC_RA)


def unchanged_on_old(F, comps, except_addrs=()):
    """each listed component is unchanged on every object that existed at entry (except the listed addresses)"""
    x = z3.Const("x!u", I)
    out = []
    for c in comps:
        cond = [0 <= x, x < F.old.alloc] + [x != a for a in except_addrs]
        out.append(z3.ForAll([x], z3.Implies(z3.And(*cond), F.same_at(c, x)), patterns=[z3.Select(F.new.h(c), x)]))
    return z3.And(*out)


OBS_COMPS = ("d_has", "d_get", "d_len", "l_len", "l_item", "s_has", "s_len", "fld:_state", "g:ev_len", "g:ev_item")


def observably_unchanged(F):
    """`leaves the context observably unchanged`: tables, teardown list, state, event log - of every context"""
    return z3.And(unchanged_on_old(F, ("d_has", "d_get", "d_len", "l_len", "l_item", "s_has", "s_len", "fld:_state")),
                  F.same("g:ev_len", "g:ev_item"),
                  # the module-level binding table lives outside the allocated range
                  F.same_at("d_has", Val.a(F.eng.reg.global_ref("_event.bound_signals"))),
                  F.same_at("d_get", Val.a(F.eng.reg.global_ref("_event.bound_signals"))))


# =========================================================================================== simple methods

class EnsureState(FnSpec):
    """C13: _ensure_state(*allowed) returns iff the state is allowed, else RuntimeError; writes nothing."""
    qual = "_context.Context._ensure_state"
    properties = ("C13",)
    param_types = {"allowed_states": TUP(ANY)}
    modifies = frozenset()
    check_guarantee = False

    def _allowed(self, F):
        a = F.addr("allowed_states")
        return tmem(z3.Select(F.old.h("t_item"), a), F.old.t_len(a), state_of(F.old, F.addr("self")))

    def requires(self, F):
        c = F.addr("self")
        return [("state-is-a-ContextState", in_states(F.old, c, S_INACTIVE, S_OPEN, S_CLOSING, S_CLOSED))]

    def ensures(self, F):
        return [("returns-only-if-allowed", self._allowed(F))]

    def raises(self, F):
        return [("raises-only-if-not-allowed", z3.Not(self._allowed(F))),
                ("raises-RuntimeError", F.exc_is("RuntimeError"))]


class Closed(FnSpec):
    """C13: `closed` is true exactly from the start of teardown on."""
    qual = "_context.Context.closed"
    properties = ("C13",)
    ret_type = TBOOL
    modifies = frozenset()
    may_raise = False
    check_guarantee = False

    def ensures(self, F):
        return [("closed-iff-closing-or-closed", Val.b(F.result.t) == in_states(F.old, F.addr("self"), S_CLOSING, S_CLOSED))]


class AddTeardownCallback(FnSpec):
    """C01 (route 1), C13: appends exactly one (callback, flag), or raises with nothing changed."""
    qual = "_context.Context.add_teardown_callback"
    properties = ("C01", "C13", "C03")
    param_types = {"callback": ANY, "pass_exception": ANY}
    modifies = frozenset({"l_len", "l_item"})

    def requires(self, F):
        c = F.addr("self")
        return [("state-is-a-ContextState", in_states(F.old, c, S_INACTIVE, S_OPEN, S_CLOSING, S_CLOSED))]

    def ensures(self, F):
        c = F.addr("self")
        t = T(F.old, c)
        n = F.old.l_len(t)
        i = z3.Const("i!atc", I)
        return [
            ("allowed-only-open-or-closing", in_states(F.old, c, S_OPEN, S_CLOSING)),
            ("callback-is-callable", callable_u(F.t("callback"))),
            ("appended-one", z3.And(F.new.l_len(t) == n + 1,
                                    F.new.l_item(t, n) == Val.pair(F.t("callback"), F.t("pass_exception")))),
            ("earlier-callbacks-kept", z3.ForAll([i], z3.Implies(z3.And(0 <= i, i < n), F.new.l_item(t, i) == F.old.l_item(t, i)),
                                                 patterns=[F.new.l_item(t, i)])),
            ("only-own-list-changed", unchanged_on_old(F, ("l_len", "l_item"), except_addrs=[t])),
        ]

    def raises(self, F):
        c = F.addr("self")
        ok_state = in_states(F.old, c, S_OPEN, S_CLOSING)
        return [
            ("wrong-state-raises-RuntimeError", z3.Implies(z3.Not(ok_state), F.exc_is("RuntimeError"))),
            ("not-callable-raises-TypeError", z3.Implies(ok_state, z3.And(z3.Not(callable_u(F.t("callback"))), F.exc_is("TypeError")))),
            ("unchanged", unchanged_on_old(F, ("l_len", "l_item"))),
        ]


def register(reg):
    reg.schema["Context"] = dict(CTX_SCHEMA)
    reg.schema["ResourceContainer"] = {"value": ANY, "types": TUP(ANY), "name": TSTR, "description": ANY, "is_generated": TBOOL}
    reg.schema["ResourceFactory"] = {"callback": ANY, "types": TUP(ANY), "name": TSTR, "description": ANY}
    reg.schema["ResourceEvent"] = {"resource_types": TUP(ANY), "resource_name": TSTR, "resource_description": ANY, "is_factory": TBOOL}
    reg.ghost_comps["g:ctx_init"] = AB
    reg.exc_arg_names["ResourceNotFound"] = ["type", "name"]
    reg.exc_arg_names["ComponentStartError"] = ["phase", "path", "component_type"]
    for cls, fields in (("ResourceContainer", ("value", "types", "name", "description", "is_generated")),
                        ("ResourceFactory", ("callback", "types", "name", "description")),
                        ("Context", ("_resources", "_resource_factories", "_teardown_callbacks", "_child_contexts", "_parent"))):
        for f in fields:
            reg.immutable_fields.add((cls, f))
    for s in (EnsureState, Closed, AddTeardownCallback):
        reg.add(s)
