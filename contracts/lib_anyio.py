"""Assumed contracts on dependencies (DESIGN 3.3): contextlib.AsyncExitStack, contextvars, anyio task groups,
cancel scopes, events.  Never verified; every use is recorded in the trusted base of the obligations it supports."""
import ast
import z3
from pyvc.smt import *
from pyvc.state import *

TOKEN = con("ctxvar-token")
XS_MAX = 6


def tag(name):
    return con("xs:" + name)


def entry(tagname, a=VNone, b=VNone):
    return Val.pair(tag(tagname), Val.pair(a, b))


def xs_len(H, s):
    return z3.Select(H.g("g:xs_len"), s)


def xs_item(H, s, i):
    return z3.Select(z3.Select(H.g("g:xs_item"), s), i)


def _push(st: State, s, e):
    n = z3.Select(st.heap["g:xs_len"], s)
    items = z3.Select(st.heap["g:xs_item"], s)
    st.heap["g:xs_item"] = z3.Store(st.heap["g:xs_item"], s, z3.Store(items, n, e))
    st.heap["g:xs_len"] = z3.Store(st.heap["g:xs_len"], s, n + 1)


def new_lib(eng, st: State, cls: str, owned=False) -> SV:
    a = st.new_ref(owned=owned)
    st.set_fld("__class__", a, con(cls))
    return SV(vref(a), LIB(cls))


def register(reg):
    reg.lib_classes |= {"AsyncExitStack", "TaskGroup", "CancelScope", "AnyioEvent", "CoalesceCM", "ContextVar", "TaskStatus"}
    reg.ghost_comps.update({"g:xs_len": AI, "g:xs_item": LI, "g:tg_active": AB, "g:cs_cancelled": AB, "g:ev_set": AB})
    T = reg.assumptions_text
    T["A-XS"] = ("contextlib.AsyncExitStack: entries run in reverse order on exit, an exception raised by an entry replaces the one in "
                 "flight and the remaining entries still run, a truthy result of an exit entry suppresses; pop_all() moves the entries; "
                 "entering the stack / a task group does not suspend")
    T["A-TG2"] = ("anyio task group exit: returns or raises only after every child task has ended; a body exception X (no child failing) "
                  "comes out as a group whose only member is X (ExceptionGroup for an Exception, BaseExceptionGroup otherwise)")
    T["A-CV"] = T.get("A-CV", "contextvars semantics")

    # ------------------------------------------------------------------ constructors
    def mk_stack(eng, st, pos, kw, node):
        st.uses.add("A-XS")
        # a new stack is referenced only by its creator until it is stored somewhere or passed on (escape analysis of the engine)
        v = new_lib(eng, st, "AsyncExitStack", owned=True)
        st.heap["g:xs_len"] = z3.Store(st.heap["g:xs_len"], Val.a(v.t), z3.IntVal(0))
        if "g:xs_owner" in st.heap:
            st.heap["g:xs_owner"] = z3.Store(st.heap["g:xs_owner"], Val.a(v.t), VNone)      # not (yet) the stack of any context
        return [Res(st, v)]
    reg.ext_calls["contextlib.AsyncExitStack"] = mk_stack

    def mk_tg(eng, st, pos, kw, node):
        v = new_lib(eng, st, "TaskGroup", owned=True)
        st.heap["g:tg_active"] = z3.Store(st.heap["g:tg_active"], Val.a(v.t), False)
        return [Res(st, v)]
    reg.ext_calls["anyio.create_task_group"] = mk_tg

    # ------------------------------------------------------------------ ContextVar
    def cv_set(eng, st, recv, pos, kw, node, awaited):
        st.uses.add("A-CV")
        tok = Val.pair(TOKEN, st.heap["g:curctx"])
        st.heap["g:curctx"] = pos[0].t
        return [Res(st, SV(tok, ANY))]

    def cv_reset(eng, st, recv, pos, kw, node, awaited):
        st.uses.add("A-CV")
        st.heap["g:curctx"] = Val.snd(pos[0].t)
        return [Res(st, NONE_SV)]
    reg.lib_methods["ContextVar.set"] = cv_set
    reg.lib_methods["ContextVar.reset"] = cv_reset

    # ------------------------------------------------------------------ AsyncExitStack methods
    def describe_callable(eng, st, f: SV, args):
        """entry for a pushed synchronous callback"""
        a0 = args[0].t if args else VNone
        if f.ty.kind == "cbm":        # method of a builtin container, e.g. set.remove
            recv = Val.recv(f.t)
            return entry("cb:container." + f.ty.name, recv, a0), None
        if f.ty.kind == "libbm":
            return entry("cb:" + f.ty.name, Val.recv(f.t), a0), None
        return entry("cb:opaque", f.t, a0), None

    def xs_callback(eng, st, recv, pos, kw, node, awaited):
        st.uses.add("A-XS")
        e, _ = describe_callable(eng, st, pos[0], pos[1:])
        _push(st, Val.a(recv.t), e)
        for v in pos:
            eng.escape(st, v)
        return [Res(st, pos[0])]
    reg.lib_methods["AsyncExitStack.callback"] = xs_callback

    def xs_push_async_exit(eng, st, recv, pos, kw, node, awaited):
        st.uses.add("A-XS")
        f = pos[0]
        if f.ty.kind == "bm":
            e = entry("aexit:" + f.ty.name, Val.recv(f.t))
        else:
            e = entry("aexit:opaque", f.t)
        _push(st, Val.a(recv.t), e)
        return [Res(st, f)]
    reg.lib_methods["AsyncExitStack.push_async_exit"] = xs_push_async_exit

    def xs_enter_async_context(eng, st, recv, pos, kw, node, awaited):
        st.uses.add("A-XS")
        cm = pos[0]
        k = strip_opt(cm.ty)
        out = []
        if k.kind == "lib" and k.name == "TaskGroup":
            st.heap["g:tg_active"] = z3.Store(st.heap["g:tg_active"], Val.a(cm.t), True)
            _push(st, Val.a(recv.t), entry("acm:TaskGroup", cm.t))
            return [Res(st, cm)]
        if k.kind == "lib" and k.name == "CoalesceCM":
            _push(st, Val.a(recv.t), entry("acm:CoalesceCM", cm.t))
            return [Res(st, NONE_SV)]
        raise Untranslatable(f"enter_async_context({cm.ty}) has no assumed contract")
    reg.lib_methods["AsyncExitStack.enter_async_context"] = xs_enter_async_context

    def xs_pop_all(eng, st, recv, pos, kw, node, awaited):
        st.uses.add("A-XS")
        s = Val.a(recv.t)
        v = new_lib(eng, st, "AsyncExitStack")
        n = Val.a(v.t)
        st.heap["g:xs_len"] = z3.Store(st.heap["g:xs_len"], n, z3.Select(st.heap["g:xs_len"], s))
        st.heap["g:xs_item"] = z3.Store(st.heap["g:xs_item"], n, z3.Select(st.heap["g:xs_item"], s))
        st.heap["g:xs_len"] = z3.Store(st.heap["g:xs_len"], s, z3.IntVal(0))
        return [Res(st, v)]
    reg.lib_methods["AsyncExitStack.pop_all"] = xs_pop_all

    # ---- running the stack (A-XS).  -> list of (state, pending exception SV | None)
    def run_stack(eng, st: State, s, exc, anchor):
        results = []
        n_sym = z3.Select(st.heap["g:xs_len"], s)
        st.assume(n_sym >= 0)
        eng.oblige(st, "pre", "exit-stack-depth-within-model", n_sym <= XS_MAX, anchor)
        for n in range(0, XS_MAX + 1):
            sn = st.fork(n_sym == n, f"stack{n}")
            if not eng.feasible(sn):
                continue
            cur = [(sn, exc)]
            # the entries are those on the stack when the unwinding begins (A-XS: the stack pops its own deque; the depth is fixed above)
            items0 = z3.Select(sn.heap["g:xs_item"], s)
            for i in range(n - 1, -1, -1):
                nxt = []
                for (s1, e1) in cur:
                    nxt.extend(run_entry(eng, s1, z3.Select(items0, i), e1, f"{anchor}/entry{i}"))
                cur = nxt
            for (s1, e1) in cur:
                s1.heap["g:xs_len"] = z3.Store(s1.heap["g:xs_len"], s, z3.IntVal(0))
                results.append((s1, e1))
        return results
    reg.run_exit_stack = run_stack

    KINDS = {}

    def run_entry(eng, st: State, ent, exc, anchor):
        """one exit-stack entry with the exception in flight `exc` (SV or None) -> list of (state, exc')"""
        out = []
        t = Val.fst(ent)
        pa, pb = Val.fst(Val.snd(ent)), Val.snd(Val.snd(ent))
        st.ghost = dict(st.ghost)
        st.ghost["entries_run"] = st.ghost.get("entries_run", 0) + 1
        rest = st
        for name, fn in KINDS.items():
            hit = rest.fork(t == tag(name), name.split(":")[0])
            rest = rest.fork(t != tag(name))
            if eng.feasible(hit):
                out.extend(fn(eng, hit, pa, pb, exc, anchor))
            if not eng.feasible(rest):
                rest = None
                break
        if rest is not None:
            # unknown entry: foreign code
            for r in eng.opaque_call(rest, SV(pa, ANY), [], None, "call(exit-stack-entry)"):
                if r.exc is not None:
                    out.append((r.st, r.exc))
                else:
                    out.append((r.st, exc))
        return out

    def k_set_remove(eng, st, pa, pb, exc, anchor):
        res = eng.m_set_remove(st, SV(pa, SET(ANY)), [SV(pb, ANY)], {}, None)
        return [(r.st, r.exc if r.exc is not None else exc) for r in res]
    KINDS["cb:container.remove"] = k_set_remove

    def k_cv_reset(eng, st, pa, pb, exc, anchor):
        st.heap["g:curctx"] = Val.snd(pb)
        return [(st, exc)]
    KINDS["cb:ContextVar.reset"] = k_cv_reset

    def k_teardown(eng, st, pa, pb, exc, anchor):
        ev = exc if exc is not None else NONE_SV
        et = SV(z3.If(ev.t == VNone, VNone, st.fld("__class__", Val.a(ev.t))), ANY)
        recv = SV(pa, INST("Context"))
        first = st.ghost.get("entries_run", 0) == 1
        res = eng.call_spec(st, "_context.Context._run_teardown_callbacks", [recv, et, ev, NONE_SV], {}, anchor + "/teardown", awaited=True)
        # returns None: never suppresses; a raised group replaces the exception in flight
        out = []
        for r in res:
            r.st.ghost = dict(r.st.ghost)
            r.st.ghost["td_first"] = first
            r.st.ghost["teardown_raised"] = r.exc is not None
            out.append((r.st, r.exc if r.exc is not None else exc))
        return out
    KINDS["aexit:_context.Context._run_teardown_callbacks"] = k_teardown

    def k_taskgroup(eng, st, pa, pb, exc, anchor):
        """A-TG1/2: waits for the children (suspension), then: no exception and no failed child -> nothing; body exception X
        and no failed child -> a group with the single member X; a failed child -> some exception"""
        st.uses.add("A-TG2")
        out = []
        for r in eng.suspend(st, SV(pa, ANY), "await-task-group-exit"):
            s1 = r.st
            s1.heap["g:tg_active"] = z3.Store(s1.heap["g:tg_active"], Val.a(pa), False)
            if r.exc is not None:
                # child failure / cancellation of the waiting: anything
                s1.ghost = dict(s1.ghost)
                s1.ghost["children_failed_py"] = True
                out.append((s1, r.exc))
                continue
            if exc is None:
                out.append((s1, None))
            else:
                x_is_exc = subcls(s1.fld("__class__", Val.a(exc.t)), con("Exception"))
                for (cond, cls) in ((x_is_exc, "ExceptionGroup"), (z3.Not(x_is_exc), "BaseExceptionGroup")):
                    s2 = s1.fork(cond, cls)
                    if not eng.feasible(s2):
                        continue
                    g = eng.new_exception(s2, cls, [])
                    lst = s2.new_list(z3.Store(z3.K(I, VNone), 0, exc.t), z3.IntVal(1))
                    s2.set_fld("exceptions", Val.a(g.t), vref(lst))
                    out.append((s2, g))
        return out
    KINDS["acm:TaskGroup"] = k_taskgroup
    reg._k_taskgroup = k_taskgroup

    def k_coalesce(eng, st, pa, pb, exc, anchor):
        """exit of the coalesce_exceptions() context manager: by its own (verified) contract"""
        if exc is None:
            return [(st, None)]
        e = Val.a(exc.t)
        is_eg = subcls(st.fld("__class__", e), con("ExceptionGroup"))
        lst = Val.a(st.fld("exceptions", e))
        m0 = st.l_item(lst, 0)
        # members of an exception group are exception objects (BaseExceptionGroup's own invariant)
        st.assume(z3.Implies(is_eg, z3.And(Val.is_ref(m0), 0 <= Val.a(m0), Val.a(m0) < st.alloc,
                                           subcls(st.fld("__class__", Val.a(m0)), con("BaseException")))))
        single = z3.And(is_eg, st.l_len(lst) == 1, z3.Not(subcls(st.fld("__class__", Val.a(m0)), con("ExceptionGroup"))))
        s_un = st.fork(single, "coalesced")
        s_keep = st.fork(z3.Not(single))
        out = []
        if eng.feasible(s_un):
            out.append((s_un, SV(m0, TEXC)))
        if eng.feasible(s_keep):
            out.append((s_keep, exc))
        return out
    KINDS["acm:CoalesceCM"] = k_coalesce
    reg._k_coalesce = k_coalesce

    def xs_aexit(eng, st, recv, pos, kw, node, awaited):
        """AsyncExitStack.__aexit__(et, ev, tb): runs the entries; returns truthy iff the incoming exception was suppressed"""
        st.uses.add("A-XS")
        ev = pos[1]
        out = []
        s_none = st.fork(ev.t == VNone)
        s_exc = st.fork(ev.t != VNone)
        for (s0, exc_in) in ((s_none, None), (s_exc, SV(ev.t, TEXC))):
            if not eng.feasible(s0):
                continue
            for (s1, e1) in run_stack(eng, s0, Val.a(recv.t), exc_in, eng.anchor_for(node) if node is not None else "exit-stack"):
                if e1 is None:
                    out.append(Res(s1, SV(vbool(exc_in is not None), TBOOL)))
                elif exc_in is not None and e1.t.eq(exc_in.t):
                    out.append(Res(s1, SV(vbool(False), TBOOL)))      # same exception still in flight: not suppressed, not re-raised
                else:
                    out.append(Res(s1, None, e1))
        return out
    reg.lib_methods["AsyncExitStack.__aexit__"] = xs_aexit

    # the stack used as a context manager itself:  async with AsyncExitStack() as s
    def xs_cm_enter(eng, st, cm, is_async, item):
        return [Res(st, cm)]

    def xs_cm_exit(eng, o: Outcome, cm, is_async, item):
        st = o.st
        exc_in = o.val if o.kind == "raise" else None
        out = []
        for (s1, e1) in run_stack(eng, st, Val.a(cm.t), exc_in, "with-exit-stack"):
            if e1 is None:
                out.append(Outcome("normal" if o.kind == "raise" else o.kind, s1, None if o.kind == "raise" else o.val))
            elif exc_in is not None and e1.t.eq(exc_in.t):
                out.append(Outcome("raise", s1, exc_in))
            else:
                out.append(Outcome("raise", s1, e1))
        return out
    reg.lib_cms["AsyncExitStack"] = (xs_cm_enter, xs_cm_exit)

    # coalesce_exceptions(): calling the (async) context-manager function creates the manager object
    def mk_coalesce(eng, st, pos, kw, node):
        return [Res(st, new_lib(eng, st, "CoalesceCM"))]
    reg.func_calls["_utils.coalesce_exceptions"] = mk_coalesce
