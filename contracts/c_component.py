"""C05 / C06 / C07 / C14: _component.py - component start-up order, error mapping, configuration, waiting for resources."""
import ast
import z3
from pyvc.smt import *
from pyvc.state import *
from pyvc.specs import FnSpec, Frame, LoopCtx
from pyvc import roles
from pyvc.calls import attr_of, ATTRS
from .c_context import *
from .lib_anyio import new_lib

CS = lambda n: con("ComponentState." + n)
SubtreeStarted = z3.Function("SubtreeStarted", Val, B)     # history: _start_component(cc) returned normally (its whole subtree is started)

CC_SCHEMA = {
    "path": TSTR, "_component": ANY, "_default_resource_name": TSTR,
    "_child_component_contexts": DICT(TSTR, INST("ComponentContext")),
    "_component_state": TCON, "_coro": ANY, "_context": INST("Context"),
}


def overrides(H, comp, meth):
    """type(component).<meth> is not Component.<meth>"""
    cls = z3.If(Val.is_ref(comp), H.fld("__class__", Val.a(comp)), type_of(comp))
    return attr_of(type_of(comp), z3.IntVal(ATTRS.id(meth))) != con("Component." + meth)


class StartComponent_(FnSpec):
    """C05/C07: _start_component(cc): inside `async with cc`: prepare() (iff overridden) completes before any child is spawned; all
    children are spawned in one atomic segment, each exactly once, in an inner task group; start() (iff overridden) is called only after
    that group has exited normally (every child's _start_component returned); an Exception from prepare()/start() becomes
    ComponentStartError(phase, path, class) from it; after a failing child or prepare(), start() is never called."""
    qual = "_component._start_component"
    properties = ("C05", "C07", "C14")
    param_types = {"context": INST("ComponentContext")}
    modifies = "rely"
    suspends = True
    uses_invariants = ("I-stk:exit-stack-as-pushed-by-aenter",)

    def requires(self, F):
        c = F.addr("context")
        return [("initialised-component-context", z3.And(is_ctx(F.old, c), z3.Select(F.old.g("g:cc_init"), c))),
                ("not-yet-entered", state_of(F.old, c) == S_INACTIVE),
                ("parent-context-initialised", z3.Or(F.old.fld("_parent", c) == VNone,
                                                     z3.And(Val.is_ref(F.old.fld("_parent", c)), is_ctx(F.old, Val.a(F.old.fld("_parent", c))))))]

    def init_ghost(self, eng, st):
        st.ghost["order"] = []          # python-level log of the phases on this path

    def extra_rely(self, eng, st, anchor=""):
        """G_tree (assumed for the activation owning cc): only this activation writes cc's component state and child table"""
        c = Val.a(st.env["context"].t)
        st.uses.add("A-TREE")

        def own(old, new):
            return z3.And(new.fld("_component_state", c) == old.fld("_component_state", c),
                          new.fld("_child_component_contexts", c) == old.fld("_child_component_contexts", c),
                          new.fld("_component", c) == old.fld("_component", c), new.fld("path", c) == old.fld("path", c),
                          z3.Select(new.h("d_has"), Val.a(old.fld("_child_component_contexts", c))) == z3.Select(old.h("d_has"), Val.a(old.fld("_child_component_contexts", c))),
                          z3.Select(new.h("d_get"), Val.a(old.fld("_child_component_contexts", c))) == z3.Select(old.h("d_get"), Val.a(old.fld("_child_component_contexts", c))))
        return [("A-TREE:own-node-written-only-by-its-activation", own)]

    def on_opaque_call(self, eng, st, f, args, anchor):
        c = Val.a(st.env["context"].t)
        comp = st.fld("_component", c)
        H = HeapView(st.heap)
        st.ghost = dict(st.ghost)
        if ".prepare" in anchor:
            st.ghost["order"] = st.ghost["order"] + ["prepare"]
            eng.oblige(st, "post", "prepare:state-is-preparing", st.fld("_component_state", c) == CS("preparing"), anchor)
            eng.oblige(st, "post", "prepare:only-if-overridden", overrides(H, comp, "prepare"), anchor)
            eng.oblige(st, "post", "prepare:context-is-current", H.h("g:curctx") == st.env["context"].t, anchor)
        elif ".start" in anchor:
            st.ghost["order"] = st.ghost["order"] + ["start"]
            eng.oblige(st, "post", "start:state-is-starting", st.fld("_component_state", c) == CS("starting"), anchor)
            eng.oblige(st, "post", "start:only-if-overridden", overrides(H, comp, "start"), anchor)
            eng.oblige(st, "post", "start:context-is-current", H.h("g:curctx") == st.env["context"].t, anchor)
        else:
            st.ghost["order"] = st.ghost["order"] + ["other:" + anchor]

    def on_await(self, eng, st, awaited, anchor):
        st.ghost = dict(st.ghost)
        st.ghost["order"] = st.ghost["order"] + ["await:" + anchor]

    def on_new_exception(self, eng, st, cls, a, args):
        """C07: the start error created here names the phase that just failed, this component's path and class"""
        if cls != "ComponentStartError":
            return
        c = Val.a(st.env["context"].t)
        calls = [o for o in st.ghost.get("order", []) if o in ("prepare", "start")]
        want = {"prepare": "preparing", "start": "starting"}.get(calls[-1] if calls else None)
        ok = z3.BoolVal(False)
        if want is not None and len(args) == 3:
            ok = z3.And(args[0].t == sid(want), args[1].t == st.fld("path", c), args[2].t == type_of(st.fld("_component", c)))
        eng.oblige(st, "post", "start-error-names-the-failing-phase-path-and-class", ok, "ComponentStartError")
        # only an Exception of the component becomes a start error (cancellation and other BaseExceptions pass through unchanged)
        h = st.exc_reg
        eng.oblige(st, "post", "start-error-only-for-an-Exception",
                   z3.And(h.t != VNone, subcls(st.fld("__class__", Val.a(h.t)), con("Exception"))) if h.ty.kind != "none" else z3.BoolVal(False),
                   "ComponentStartError")

    def _phases(self, F):
        tr = F.new_st.trace
        order = list(F.new_st.ghost.get("order", []))
        spawns = [e for e in tr if e[0] == "spawn"]
        return tr, order, spawns

    def _structure(self, F, normal):
        """the order of phases on this path"""
        tr, order, spawns = self._phases(F)
        c = F.addr("context")
        comp = F.old.fld("_component", c)
        calls = [o for o in order if o in ("prepare", "start")]
        others = [o for o in order if o.startswith("other:")]
        # positions in the trace: opaque calls, spawns, task-group exit suspension
        idx = {}
        for i, e in enumerate(tr):
            if e[0] in ("opaque", "opaque-raise") and len(e) > 4:
                if ".prepare" in e[4]:
                    idx.setdefault("prepare", i)
                if ".start" in e[4]:
                    idx.setdefault("start", i)
            if e[0] == "spawn":
                idx.setdefault("first_spawn", i)
                idx["last_spawn"] = i
        out = [("calls-only-prepare-and-start", z3.BoolVal(not others)),
               ("each-phase-at-most-once-prepare-before-start", z3.BoolVal(calls in ([], ["prepare"], ["start"], ["prepare", "start"])))]
        if "prepare" in idx and "first_spawn" in idx:
            out.append(("prepare-completes-before-children-are-spawned", z3.BoolVal(idx["prepare"] < idx["first_spawn"])))
        if "start" in idx and "last_spawn" in idx:
            out.append(("start-only-after-all-children-were-spawned-and-awaited", z3.BoolVal(idx["last_spawn"] < idx["start"])))
        if "first_spawn" in idx:
            between = tr[idx["first_spawn"]: idx["last_spawn"] + 1]
            out.append(("children-spawned-in-one-atomic-segment", z3.BoolVal(not any(e[0] in ("opaque", "opaque-raise", "yield") for e in between))))
        if normal:
            out.append(("prepare-called-iff-overridden", z3.BoolVal("prepare" in calls) == overrides(F.old, comp, "prepare")))
            out.append(("start-called-iff-overridden", z3.BoolVal("start" in calls) == overrides(F.old, comp, "start")))
            out.append(("component-state-started", F.new.fld("_component_state", c) == CS("started")))
        return out

    def local_ensures(self, F):
        return self._structure(F, True)

    def local_raises(self, F):
        tr, order, spawns = self._phases(F)
        c = F.addr("context")
        e = Val.a(F.exc.t)
        out = self._structure(F, False)
        # which phase raised on this path?
        raised_in = None
        for ev in tr:
            if ev[0] == "opaque-raise" and len(ev) > 4:
                raised_in = "preparing" if ".prepare" in ev[4] else ("starting" if ".start" in ev[4] else raised_in)
        awaited_raise = [t for t in F.new_st.tags if t == "raises"]
        comp = F.old.fld("_component", c)
        mine = [ev for ev in tr if ev[0] == "new_exc" and ev[1] == "ComponentStartError"]
        froms = [ev for ev in tr if ev[0] == "raise_from"]
        out.append(("own-start-error-is-raised-from-the-original-exception",
                    z3.BoolVal(len(mine) <= 1 and (not mine or (len(froms) == 1 and froms[0][2].ty.kind == "exc")))))
        return out

    def _loop0(self, L):
        """for alias, child_context in context._child_component_contexts.items(): tg.start_soon(_start_component, child_context)"""
        c = Val.a(L.v("context").t)
        E, C = L.entry, L.cur
        d = Val.a(E.fld("_child_component_contexts", c))
        P = L.it["P"]
        k = z3.Const("k!sc", Val)
        tg = L.v(roles.with_target(L.eng.fi.node, "create_task_group"))
        g = Val.a(tg.t)
        n0 = z3.Select(E.g("g:spawn_n"), g)
        n = z3.Select(C.g("g:spawn_n"), g)
        w = C.g("g:spawn_idx")          # ghost witness: key -> index in the spawn log
        return [
            ("task-group-active", z3.And(z3.Select(C.g("g:tg_active"), g), Val.is_ref(tg.t), n >= n0)),
            ("every-processed-child-spawned-exactly-once", z3.ForAll([k], z3.Implies(z3.Select(P, k), z3.And(
                n0 <= z3.Select(w, k), z3.Select(w, k) < n,
                z3.Select(z3.Select(C.g("g:spawn_f"), g), z3.Select(w, k)) == con("func:_component._start_component"),
                z3.Select(z3.Select(C.g("g:spawn_a1"), g), z3.Select(w, k)) == C.d_get(d, k))), patterns=[z3.Select(P, k)])),
            ("child-table-unchanged", z3.And(C.fld("_child_component_contexts", c) == E.fld("_child_component_contexts", c),
                                             C.d_hasarr(d) == E.d_hasarr(d), C.d_getarr(d) == E.d_getarr(d))),
            ("alloc-monotone", C.alloc >= E.alloc),
        ]

    def on_lib_call(self, eng, st, name, recv, pos):
        """ghost witness: which entry of the spawn log belongs to the child being processed"""
        if name == "TaskGroup.start_soon":
            names = roles.loop_target_names(eng.fi.node, 0)
            if names and names[0] in st.env:
                key = st.env[names[0]].t
                g = Val.a(recv.t)
                st.heap["g:spawn_idx"] = z3.Store(st.heap["g:spawn_idx"], key, z3.Select(st.heap["g:spawn_n"], g))

    def __init__(self):
        self.loops = {0: self._loop0}


def register(reg):
    reg.schema.setdefault("ComponentContext", {}).update(CC_SCHEMA)
    reg.schema["Component"] = {"_child_components": OPT(DICT(TSTR, DICT(TSTR, ANY))), "_component_started": TBOOL}
    reg.ghost_comps["g:spawn_idx"] = KV if False else z3.ArraySort(Val, I)
    for f in ("path", "_component", "_default_resource_name", "_child_component_contexts", "_context"):
        reg.immutable_fields.add(("ComponentContext", f))
    reg.exc_arg_names["ComponentStartError"] = ["phase", "path", "component_type"]
    reg.assumptions_text["A-TREE"] = ("component tree: the ComponentContext objects form a tree (built by _init_component, every node fresh) and "
                                      "only the activation _start_component(cc) writes cc's component state")

    # coalesce_exceptions() used directly as `async with coalesce_exceptions(), create_task_group() as tg`
    def co_enter(eng, st, cm, is_async, item):
        return [Res(st, NONE_SV)]

    def co_exit(eng, o, cm, is_async, item):
        exc_in = o.val if o.kind == "raise" else None
        from .lib_anyio import register as _  # noqa
        out = []
        for (s1, e1) in reg._k_coalesce(eng, o.st, cm.t, VNone, exc_in, "with-coalesce"):
            if e1 is None:
                out.append(Outcome(o.kind if o.kind != "raise" else "normal", s1, o.val if o.kind != "raise" else None))
            else:
                out.append(Outcome("raise", s1, e1))
        return out
    reg.lib_cms["CoalesceCM"] = (co_enter, co_exit)
    reg.add(StartComponent_)
