"""C01 (composition), C12, C13: Context.__aenter__ / __aexit__ / current_context and the exit-stack invariant I-stk."""
import z3
from pyvc.smt import *
from pyvc.state import *
from pyvc.specs import FnSpec, Frame, LoopCtx
from .c_context import *
from .c_context_tables import owner
from .c_teardown import cnt, reg_, TD_COMPS
from .lib_anyio import entry, xs_len, xs_item, TOKEN

TD_QUAL = "_context.Context._run_teardown_callbacks"


def stack_of(H, c):
    return Val.a(H.fld("_exit_stack", c))


def children_of(H, c):
    return Val.a(H.fld("_child_contexts", c))


def prev_ctx(H, c):
    """the context that was current when c was entered (stored in the reset token of c's exit stack)"""
    s = stack_of(H, c)
    par = H.fld("_parent", c)
    i = z3.If(par != VNone, 1, 0)
    return Val.snd(Val.snd(Val.snd(xs_item(H, s, i))))


def stack_shape(H, c):
    """I-stk for context c: exactly the entries __aenter__ pushed, bottom to top:
       [children.remove(self)]  reset(token)  [coalesce CM, task group]  teardown"""
    s = stack_of(H, c)
    par = H.fld("_parent", c)
    tok = lambda i: Val.snd(Val.snd(xs_item(H, s, i)))
    td = entry("aexit:" + TD_QUAL, vref(c))
    nonroot = z3.And(xs_len(H, s) == 3,
                     xs_item(H, s, 0) == entry("cb:container.remove", H.fld("_child_contexts", Val.a(par)), vref(c)),
                     Val.fst(xs_item(H, s, 1)) == con("xs:cb:ContextVar.reset"), Val.fst(tok(1)) == TOKEN,
                     xs_item(H, s, 2) == td)
    root = z3.And(xs_len(H, s) == 4,
                  Val.fst(xs_item(H, s, 0)) == con("xs:cb:ContextVar.reset"), Val.fst(tok(0)) == TOKEN,
                  Val.fst(xs_item(H, s, 1)) == con("xs:acm:CoalesceCM"),
                  xs_item(H, s, 2) == entry("acm:TaskGroup", H.fld("_task_group", c)),
                  xs_item(H, s, 3) == td)
    pv = prev_ctx(H, c)
    prev_ok = z3.Or(pv == VNone, z3.And(Val.is_ref(pv), is_ctx(H, Val.a(pv)),
                                        z3.Implies(subcls(H.fld("__class__", Val.a(pv)), con("ComponentContext")), z3.Select(H.g("g:cc_init"), Val.a(pv)))))
    return z3.And(Val.is_ref(H.fld("_exit_stack", c)), 0 <= s, s < H.alloc,
                  z3.Select(H.g("g:xs_owner"), s) == vref(c),
                  # the context recorded as previous in the reset token is None or an initialised context (I-cur held when c was entered)
                  prev_ok,
                  # an entered non-root context is registered in its parent's child set
                  z3.Implies(par != VNone, H.s_has(children_of(H, Val.a(par)), vref(c))),
                  z3.If(par != VNone, nonroot, root))


def inv_stk(H):
    x = z3.Const("x!stk", I)
    return z3.ForAll([x], z3.Implies(z3.And(is_ctx(H, x), state_of(H, x) == S_OPEN), stack_shape(H, x)),
                     patterns=[H.fld("_exit_stack", x)])


def g_stk(old, new):
    """G-stk: the exit stack of an open context is touched only by that context's own __aexit__ (which first leaves `open`)"""
    x = z3.Const("x!gstk", I)
    s = stack_of(old, x)
    return z3.ForAll([x], z3.Implies(z3.And(is_ctx(old, x), state_of(old, x) == S_OPEN, state_of(new, x) == S_OPEN),
                                     z3.And(new.fld("_exit_stack", x) == old.fld("_exit_stack", x),
                                            xs_len(new, s) == xs_len(old, s),
                                            z3.Select(new.g("g:xs_item"), s) == z3.Select(old.g("g:xs_item"), s),
                                            new.fld("_task_group", x) == old.fld("_task_group", x),
                                            z3.Implies(z3.And(old.fld("_parent", x) != VNone,
                                                              old.s_has(children_of(old, Val.a(old.fld("_parent", x))), vref(x))),
                                                       new.s_has(children_of(old, Val.a(old.fld("_parent", x))), vref(x))))),
                     patterns=[new.fld("_exit_stack", x)])


class CurrentContext(FnSpec):
    """C12: current_context() returns the task's current context or raises NoCurrentContext iff there is none."""
    qual = "_context.current_context"
    properties = ("C12",)
    ret_type = INST("Context")
    modifies = frozenset()
    check_guarantee = False

    def ensures(self, F):
        return [("returns-the-current-context", z3.And(F.old.h("g:curctx") != VNone, F.result.t == F.old.h("g:curctx")))]

    def raises(self, F):
        return [("raises-NoCurrentContext-iff-none", z3.And(F.old.h("g:curctx") == VNone, F.exc_is("NoCurrentContext")))]


class Enter(FnSpec):
    """C12/C13: __aenter__ - only from `inactive`; afterwards open, current, registered with its parent, exit stack = I-stk."""
    qual = "_context.Context.__aenter__"
    properties = ("C12", "C13", "C01")
    ret_type = INST("Context")
    modifies = frozenset({"fld:_state", "s_has", "s_len", "g:curctx", "g:xs_len", "g:xs_item", "g:xs_owner", "fld:_task_group",
                          "fld:_exit_stack", "g:tg_active"})
    uses_invariants = ("I-stk:exit-stack-as-pushed-by-aenter",)

    def requires(self, F):
        c = F.addr("self")
        par = F.old.fld("_parent", c)
        return [("initialised-context", is_ctx(F.old, c)),
                ("a-component-context-has-completed-its-own-init", z3.Implies(subcls(F.old.fld("__class__", c), con("ComponentContext")),
                                                                              z3.Select(F.old.g("g:cc_init"), c))),
                ("parent-is-an-initialised-context", z3.Or(par == VNone, z3.And(Val.is_ref(par), is_ctx(F.old, Val.a(par)))))]

    def ghost_exit(self, eng, st, kind):
        if kind == "return":
            c = Val.a(st.env["self"].t)
            st.heap["g:xs_owner"] = z3.Store(st.heap["g:xs_owner"], Val.a(st.fld("_exit_stack", c)), vref(c))

    def ensures(self, F):
        c = F.addr("self")
        par = F.old.fld("_parent", c)
        x = z3.Const("x!en", I)
        v = z3.Const("v!en", Val)
        pc_ = children_of(F.old, Val.a(par))
        return [
            ("only-from-inactive", state_of(F.old, c) == S_INACTIVE),
            ("now-open", state_of(F.new, c) == S_OPEN),
            ("returns-self", F.result.t == F.t("self")),
            ("is-the-current-context", F.new.h("g:curctx") == F.t("self")),
            ("remembers-the-previous-current-context", prev_ctx(F.new, c) == F.old.h("g:curctx")),
            ("exit-stack-as-specified", stack_shape(F.new, c)),
            ("registered-with-parent", z3.Implies(par != VNone, z3.And(
                F.new.s_has(pc_, F.t("self")),
                z3.ForAll([v], z3.Implies(v != F.t("self"), F.new.s_has(pc_, v) == F.old.s_has(pc_, v)), patterns=[F.new.s_has(pc_, v)])))),
            ("other-states-untouched", z3.ForAll([x], z3.Implies(x != c, F.same_at("fld:_state", x)), patterns=[z3.Select(F.new.h("fld:_state"), x)])),
            ("other-contexts-stacks-untouched", z3.And(
                *[z3.ForAll([x], z3.Implies(x != c, F.same_at(cmp_, x)), patterns=[z3.Select(F.new.h(cmp_), x)]) for cmp_ in ("fld:_exit_stack", "fld:_task_group")],
                *[z3.ForAll([x], z3.Implies(z3.And(0 <= x, x < F.old.alloc), F.same_at(cmp_, x)), patterns=[z3.Select(F.new.h(cmp_), x)])
                  for cmp_ in ("g:xs_len", "g:xs_item", "g:xs_owner", "g:tg_active")])),
            ("other-child-sets-untouched", z3.ForAll([x], z3.Implies(z3.And(0 <= x, x < F.old.alloc, z3.Or(par == VNone, x != pc_)), F.same_at("s_has", x)),
                                                     patterns=[z3.Select(F.new.h("s_has"), x)])),
        ]

    def raises(self, F):
        c = F.addr("self")
        return [
            ("wrong-state-raises-RuntimeError", z3.Implies(state_of(F.old, c) != S_INACTIVE, F.exc_is("RuntimeError"))),
            ("state-unchanged-or-rolled-back", state_of(F.new, c) == state_of(F.old, c)),
            ("current-context-unchanged", F.new.h("g:curctx") == F.old.h("g:curctx")),
            ("child-sets-unchanged", unchanged_on_old(F, ("s_has",))),
            ("nothing-else-touched", z3.And(unchanged_on_old(F, ("g:xs_len", "g:xs_item", "g:xs_owner", "g:tg_active", "fld:_exit_stack", "fld:_task_group")),
                                            z3.ForAll([z3.Const("x!enr", I)], z3.Implies(z3.Const("x!enr", I) != c, F.same_at("fld:_state", z3.Const("x!enr", I))),
                                                      patterns=[z3.Select(F.new.h("fld:_state"), z3.Const("x!enr", I))]))),
        ]


class Exit(FnSpec):
    """C01/C12/C13: __aexit__ - closing first, teardown before everything else on the stack, closed on every outcome,
    previous current context restored, never suppresses; a still-open child is an error."""
    qual = "_context.Context.__aexit__"
    properties = ("C01", "C12", "C13", "C15")
    param_types = {"exc_type": ANY, "exc_val": ANY, "exc_tb": ANY}
    modifies = "rely"
    suspends = True
    uses_invariants = ("I-stk:exit-stack-as-pushed-by-aenter",)
    changes_env = ("A-CV:current-context-is-per-task-and-restored-by-callees",)

    def requires(self, F):
        c = F.addr("self")
        return [("initialised-context", is_ctx(F.old, c)),
                ("entered-and-not-yet-left", state_of(F.old, c) == S_OPEN),
                ("exit-stack-intact", stack_shape(F.old, c)),
                # A-EXC (with-statement protocol): exc_val is None or the exception object that left the block
                ("exc_val-is-None-or-an-exception", z3.Or(F.t("exc_val") == VNone,
                                                          z3.And(Val.is_ref(F.t("exc_val")),
                                                                 subcls(F.old.fld("__class__", Val.a(F.t("exc_val"))), con("BaseException")))))]

    def extra_rely(self, eng, st, anchor=""):
        """A-TD1: while this context is being left, nobody else runs its teardown / writes its state or stack.
        A-TD2: once its teardown loop has finished nobody registers further callbacks on it (window until `closed`)."""
        c = Val.a(st.env["self"].t)
        st.uses.add("A-TD1")

        def own(old, new):
            s = stack_of(old, c)
            par = old.fld("_parent", c)
            pcs = children_of(old, Val.a(par))
            return z3.And(state_of(new, c) == state_of(old, c),
                          new.fld("_exit_stack", c) == old.fld("_exit_stack", c),
                          xs_len(new, s) == xs_len(old, s), z3.Select(new.g("g:xs_item"), s) == z3.Select(old.g("g:xs_item"), s),
                          z3.Implies(par != VNone, new.s_has(pcs, vref(c)) == old.s_has(pcs, vref(c))))
        out = [("A-TD1:own-state-and-stack", own)]
        if "await-task-group-exit" in anchor:
            st.uses.add("A-TD2")

            def quiet(old, new):
                t = T(old, c)
                return z3.And(new.l_len(t) == old.l_len(t), *[z3.Select(new.g(cmp_), t) == z3.Select(old.g(cmp_), t) for cmp_ in TD_COMPS])
            out.append(("A-TD2:no-registration-after-the-teardown-loop", quiet))
        return out

    def common(self, F):
        c = F.addr("self")
        t = T(F.old, c)
        k = z3.Const("k!ex", I)
        return [
            ("closed-on-every-outcome", state_of(F.new, c) == S_CLOSED),
            ("all-teardown-callbacks-invoked-exactly-once", z3.And(F.new.l_len(t) == 0,
                                                                   z3.ForAll([k], z3.Implies(z3.And(0 <= k, k < reg_(F.new, t)), cnt(F.new, t, k) == 1),
                                                                             patterns=[cnt(F.new, t, k)]))),
            ("previous-current-context-restored", F.new.h("g:curctx") == prev_ctx(F.old, c)),
        ]

    def ensures(self, F):
        return self.common(F) + [("never-suppresses", z3.Implies(F.t("exc_val") != VNone, z3.Not(F.eng.truth(F.new_st, F.result))))]

    def raises(self, F):
        return self.common(F)

    def local_ensures(self, F):
        g = F.new_st.ghost
        return [("teardown-ran-first", z3.BoolVal(g.get("td_first", False))),
                ("normal-return-only-if-no-callback-raised", z3.BoolVal(not g.get("teardown_raised", False)))]

    def local_raises(self, F):
        g = F.new_st.ghost
        out = [("teardown-ran-first", z3.BoolVal(g.get("td_first", False)))]
        if not g.get("teardown_raised", False) and not g.get("children_failed_py", False):
            # no callback raised, no child task failed: the caller sees the block's own exception, as itself when it is an
            # ordinary (non-group) Exception - or the stack-corruption RuntimeError
            ev = F.t("exc_val")
            e = F.exc.t
            ordinary = z3.And(ev != VNone, subcls(F.old.fld("__class__", Val.a(ev)), con("Exception")),
                              z3.Not(subcls(F.old.fld("__class__", Val.a(ev)), con("ExceptionGroup"))))
            out.append(("block-exception-propagates-as-itself", z3.Implies(ordinary, z3.Or(e == ev, F.exc_is("RuntimeError")))))
            out.append(("raises-only-with-a-block-exception-or-open-children",
                        z3.Or(ev != VNone, F.exc_is("RuntimeError"))))
        return out


def register(reg):
    reg.ghost_comps["g:xs_owner"] = AV
    reg.invariants.append(("I-stk:exit-stack-as-pushed-by-aenter", inv_stk,
                           ("g:ctx_init", "fld:_state", "fld:_exit_stack", "fld:_parent", "fld:_task_group", "fld:_child_contexts",
                            "g:xs_len", "g:xs_item", "g:xs_owner", "alloc", "g:cc_init", "fld:__class__", "s_has"), {"lazy": True}))
    reg.guarantees.append(("G-stk:exit-stacks-of-open-contexts-are-private", g_stk,
                           ("g:ctx_init", "fld:_state", "fld:_exit_stack", "fld:_task_group", "g:xs_len", "g:xs_item")))
    reg.assumptions_text["A-TD2"] = ("no task registers a teardown callback on a root context in the window between the end of its "
                                     "teardown loop and the moment it is marked closed (only reachable when a task outlives the teardown)")
    def with_ctx(old, new, c):
        """A-WITH: while this activation is inside `async with ctx`, nobody else leaves ctx: it stays open, its exit stack and
        its registration with the parent are untouched"""
        s = stack_of(old, c)
        par = old.fld("_parent", c)
        return z3.And(state_of(new, c) == state_of(old, c), z3.Select(new.g("g:ctx_init"), c) == z3.Select(old.g("g:ctx_init"), c),
                      new.fld("_exit_stack", c) == old.fld("_exit_stack", c), new.fld("_parent", c) == par,
                      new.fld("_task_group", c) == old.fld("_task_group", c),
                      new.fld("_child_contexts", c) == old.fld("_child_contexts", c),
                      xs_len(new, s) == xs_len(old, s), z3.Select(new.g("g:xs_item"), s) == z3.Select(old.g("g:xs_item"), s),
                      z3.Select(new.g("g:xs_owner"), s) == z3.Select(old.g("g:xs_owner"), s),
                      z3.Implies(par != VNone, z3.And(new.fld("_child_contexts", Val.a(par)) == old.fld("_child_contexts", Val.a(par)),
                                                      new.s_has(children_of(old, Val.a(par)), vref(c)) == old.s_has(children_of(old, Val.a(par)), vref(c)))))
    def ground_ctx(eng, oldheap, newheap, a, cls):
        """ground instance of G-init for a context in scope: an initialised context stays initialised"""
        if "Context" not in eng.world.mro(cls):
            return None
        return z3.Implies(z3.Select(oldheap["g:ctx_init"], a), z3.Select(newheap["g:ctx_init"], a))
    reg.ground_rely = list(getattr(reg, "ground_rely", [])) + [ground_ctx]
    reg.with_rely["Context"] = with_ctx
    reg.with_rely["ComponentContext"] = with_ctx
    reg.assumptions_text["A-WITH"] = ("with-statement protocol: a context entered by `async with` in this task is left only by this task: while inside "
                                      "the block it stays open and its exit stack / parent registration are not touched by anybody else")

    def i_cur(H):
        """I-cur: the current context of a task is None or an initialised context (a ComponentContext only once fully constructed)"""
        cur = H.h("g:curctx")
        a = Val.a(cur)
        return z3.Or(cur == VNone, z3.And(Val.is_ref(cur), is_ctx(H, a),
                                          z3.Implies(subcls(H.fld("__class__", a), con("ComponentContext")), z3.Select(H.g("g:cc_init"), a))))
    reg.invariants.append(("I-cur:current-context-is-initialised", i_cur, ("g:curctx", "g:ctx_init", "g:cc_init", "fld:__class__")))
    for s in (CurrentContext, Enter, Exit):
        reg.add(s)
