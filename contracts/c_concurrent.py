"""C08 / C09: _concurrent.py (TaskHandle, run_background_task, TaskFactory) and Context.start_service_task,
over assumed anyio contracts (A-TG, A-CS, A-EV)."""
import ast
import z3
from pyvc.smt import *
from pyvc.state import *
from pyvc.specs import FnSpec, Frame, LoopCtx
from .c_context import *
from .lib_anyio import new_lib

# ghost: g:ev_set (anyio.Event set), g:cs_cancelled (CancelScope.cancel called), g:tg_active, g:spawn_n / g:spawn_* (spawn log per group)


def ev_is_set(H, e):
    return z3.Select(H.g("g:ev_set"), e)


def cs_cancelled(H, c):
    return z3.Select(H.g("g:cs_cancelled"), c)


def finished_event(H, h):
    return Val.a(H.fld("_finished_event", h))


def scope_of(H, h):
    return Val.a(H.fld("_cancel_scope", h))


class HandleCancel(FnSpec):
    """C09: cancel() cancels only this task's own scope."""
    qual = "_concurrent.TaskHandle.cancel"
    properties = ("C09", "C08")
    modifies = frozenset({"g:cs_cancelled"})
    may_raise = False
    check_guarantee = False

    def ensures(self, F):
        h = F.addr("self")
        x = z3.Const("x!hc", I)
        sc = scope_of(F.old, h)
        return [("own-scope-cancelled", cs_cancelled(F.new, sc)),
                ("no-other-scope-touched", z3.ForAll([x], z3.Implies(x != sc, F.same_at("g:cs_cancelled", x)), patterns=[z3.Select(F.new.h("g:cs_cancelled"), x)]))]


class HandleWait(FnSpec):
    """C08/C09: wait_finished() returns only once the task's finished event is set."""
    qual = "_concurrent.TaskHandle.wait_finished"
    properties = ("C08", "C09")
    modifies = "rely"
    suspends = True

    def ensures(self, F):
        return [("returns-only-when-finished", ev_is_set(F.new, finished_event(F.old, F.addr("self"))))]


class RunBackgroundTask(FnSpec):
    """C08/C09: runs func inside the handle's own cancel scope and inside a fresh child context of `ctx` (explicit parent);
    the finished event is set on every outcome and only after that context has been closed; an escaping Exception goes to the
    handler exactly once and is swallowed iff the handler returns a truthy value; other BaseExceptions bypass the handler."""
    qual = "_concurrent.run_background_task"
    properties = ("C08", "C09")
    param_types = {"func": ANY, "ctx": INST("Context"), "task_handle": INST("TaskHandle"), "exception_handler": ANY,
                   "task_status": LIB("TaskStatus")}
    modifies = "rely"
    suspends = True
    pure_exprs = ("signature(func).parameters.values()",)

    def requires(self, F):
        c = F.addr("ctx")
        return [("parent-context-initialised", z3.And(Val.is_ref(F.t("ctx")), is_ctx(F.old, c),
                                                      z3.Implies(subcls(F.old.fld("__class__", c), con("ComponentContext")), z3.Select(F.old.g("g:cc_init"), c))))]

    def init_ghost(self, eng, st):
        # the scope TaskHandle.cancel() acts on: the one the handle carries when the task function is entered
        st.ghost["scope0"] = st.fld("_cancel_scope", Val.a(st.env["task_handle"].t))

    def on_lib_call(self, eng, st, name, recv, pos):
        if name == "CancelScope.__enter__":
            # a cancel() issued between the spawn and the first step of the task acts on the scope the handle was created with:
            # that scope - not a later replacement - must be the one the task function runs in
            eng.oblige(st, "post", "runs-inside-the-scope-the-handle-was-created-with", recv.t == st.ghost["scope0"], "CancelScope.__enter__")
        if name == "AnyioEvent.set":
            # ordering: the finished event is set only after the task's own context has been left (closed)
            if any("enter#" in t and t.endswith("-raises") for t in st.tags):
                return      # entering the fresh context failed (not reachable: it is inactive): no context to wait for
            news = [e for e in st.trace if e[0] == "new" and e[1] == "Context"]
            ok = z3.BoolVal(False)
            if len(news) == 1:
                # closed - or never entered at all (entering failed)
                ok = in_states(HeapView(st.heap), news[0][2], S_CLOSED, S_INACTIVE)
            eng.oblige(st, "post", "finished-implies-own-context-closed", ok, "Event.set")
            eng.oblige(st, "post", "sets-the-handles-finished-event",
                       recv.t == st.fld("_finished_event", Val.a(st.env["task_handle"].t)), "Event.set")

    def _common(self, F):
        h = F.addr("task_handle")
        tr = F.new_st.trace
        news = [e for e in tr if e[0] == "new" and e[1] == "Context"]
        inits = [e for e in tr if e[0] == "spec_call" and e[1] == "_context.Context.__init__"]
        rebinds = [e for e in tr if e[0] == "fstore" and e[2] in ("_cancel_scope", "_finished_event")]
        scopes = [e for e in tr if e[0] == "cs_enter"]
        fcalls = [i for i, e in enumerate(tr) if e[0] in ("opaque", "opaque-raise") and e[1].t.eq(F.t("func"))]
        out = [("finished-event-set-on-every-outcome", ev_is_set(F.new, finished_event(F.old, h))),
               ("exactly-one-own-context", z3.BoolVal(len(news) == 1 and len(inits) == 1)),
               ("handle-scope-and-event-never-rebound", z3.BoolVal(not rebinds)),
               ("one-scope-entered-before-the-task-function-is-called",
                z3.BoolVal(len(scopes) == 1 and all(tr.index(scopes[0]) < i for i in fcalls)))]
        if len(inits) == 1:
            out.append(("context-parent-is-the-given-context", inits[0][2]["parent"].t == F.t("ctx")))
        return out

    def _handler_calls(self, F):
        """calls made through the exception_handler parameter on this path, with their arguments"""
        hd = F["exception_handler"].t
        return [e for e in F.new_st.trace if e[0] in ("opaque", "opaque-raise") and e[1].t.eq(hd)]

    def local_ensures(self, F):
        hc = self._handler_calls(F)
        out = self._common(F) + [("handler-called-at-most-once", z3.BoolVal(len(hc) <= 1))]
        if hc:
            # a normal return after the handler ran: the handler accepted the exception (truthy verdict)
            out.append(("swallowed-only-on-a-truthy-verdict", F.eng.truth(F.new_st, hc[0][3]) if hc[0][0] == "opaque" else z3.BoolVal(False)))
        return out

    def local_raises(self, F):
        hc = self._handler_calls(F)
        hd = F.t("exception_handler")
        is_exc = F.exc_is("Exception")
        out = self._common(F) + [
            ("handler-called-at-most-once", z3.BoolVal(len(hc) <= 1)),
            ("non-Exception-bypasses-the-handler", z3.Implies(z3.Not(is_exc), z3.BoolVal(len(hc) == 0 or hc[0][0] == "opaque-raise"))),
            ("escaping-Exception-was-offered-to-the-handler", z3.Implies(z3.And(is_exc, hd != VNone), z3.BoolVal(len(hc) == 1))),
        ]
        if hc and hc[0][0] == "opaque":
            out.append(("handler-got-the-exception-and-declined", z3.And(hc[0][2][0].t == F.exc.t, z3.Not(F.eng.truth(F.new_st, hc[0][3])))))
        return out


class FactoryAllHandles(FnSpec):
    qual = "_concurrent.TaskFactory.all_task_handles"
    properties = ("C09",)
    ret_type = SET(INST("TaskHandle"))
    modifies = frozenset()
    may_raise = False
    check_guarantee = False

    def ensures(self, F):
        f = F.addr("self")
        return [("fresh-copy", F.fresh(F.result.t)),
                ("equals-the-handle-set", F.new.s_hasarr(Val.a(F.result.t)) == F.old.s_hasarr(Val.a(F.old.fld("_tasks", f))))]


def private_handle_set(F):
    """A-DC: the factory's handle set is the set its dataclass default_factory created: nobody else's container (ownership tag `nobody`)"""
    ts = F.old.fld("_tasks", F.addr("self"))
    return [("handle-set-is-private-to-the-factory", z3.And(Val.is_ref(ts), 0 <= Val.a(ts), Val.a(ts) < F.old.alloc,
                                                            z3.Select(F.old.g("g:owner"), Val.a(ts)) == con("own:nobody")))]


class FactoryStartSoon(FnSpec):
    """C09: start_task_soon - fresh handle (own scope, own event); the task is spawned in the factory's group running
    _run_background_task(func, handle, factory.exception_handler); the handle is in the handle set iff the spawn succeeded."""
    qual = "_concurrent.TaskFactory.start_task_soon"
    properties = ("C09",)
    param_types = {"func": ANY, "name": ANY}
    ret_type = INST("TaskHandle")
    modifies = frozenset({"s_has", "s_len", "g:spawn_n", "g:spawn_f", "g:spawn_a1", "g:spawn_a2", "g:spawn_a3", "g:cs_cancelled", "g:ev_set"})

    def tasks(self, F):
        return Val.a(F.old.fld("_tasks", F.addr("self")))

    def requires(self, F):
        return private_handle_set(F)

    def ensures(self, F):
        f = F.addr("self")
        ts = self.tasks(F)
        h = F.result.t
        v = z3.Const("v!ss", Val)
        tg = Val.a(F.old.fld("_task_group", f))
        n = z3.Select(F.old.g("g:spawn_n"), tg)
        return [
            ("fresh-handle", z3.And(F.fresh(h), F.fresh(F.new.fld("_cancel_scope", Val.a(h))), F.fresh(F.new.fld("_finished_event", Val.a(h))),
                                    z3.Not(ev_is_set(F.new, finished_event(F.new, Val.a(h)))), z3.Not(cs_cancelled(F.new, scope_of(F.new, Val.a(h)))))),
            ("handle-registered", z3.And(F.new.s_has(ts, h),
                                         z3.ForAll([v], z3.Implies(v != h, F.new.s_has(ts, v) == F.old.s_has(ts, v)), patterns=[F.new.s_has(ts, v)]))),
            ("spawned-once-in-the-factory-group", z3.And(
                z3.Select(F.new.g("g:spawn_n"), tg) == n + 1,
                z3.Select(z3.Select(F.new.g("g:spawn_f"), tg), n) == Val.bm(F.t("self"), z3.IntVal(METHS.id("_run_background_task"))),
                z3.Select(z3.Select(F.new.g("g:spawn_a1"), tg), n) == F.t("func"),
                z3.Select(z3.Select(F.new.g("g:spawn_a2"), tg), n) == h,
                z3.Select(z3.Select(F.new.g("g:spawn_a3"), tg), n) == F.old.fld("exception_handler", f))),
        ]

    def raises(self, F):
        ts = self.tasks(F)
        return [("spawn-failed-handle-set-unchanged", F.new.s_hasarr(ts) == F.old.s_hasarr(ts)),
                ("nothing-spawned", F.same("g:spawn_n"))]


class FactoryStart(FactoryStartSoon):
    """C09: start_task - as start_task_soon, waiting for task_status.started(); if starting fails the handle set is as before."""
    qual = "_concurrent.TaskFactory.start_task"
    modifies = "rely"
    suspends = True

    def ensures(self, F):
        h = F.result.t
        return [("returns-a-handle", Val.is_ref(h))]

    def raises(self, F):
        return []

    def local_ensures(self, F):
        tr = F.new_st.trace
        adds = [e for e in tr if e[0] == "sadd"]
        return [("handle-added-before-spawning", z3.BoolVal(len(adds) == 1)),
                ("returns-the-added-handle", adds[0][2].t == F.result.t if adds else z3.BoolVal(False))]

    def local_raises(self, F):
        tr = F.new_st.trace
        adds = [e for e in tr if e[0] == "sadd"]
        ts = Val.a(F.new.fld("_tasks", F.addr("self")))
        if not adds:
            return []
        return [("failed-start-leaves-no-stale-handle", z3.Not(F.new.s_has(ts, adds[0][2].t)))]

    def extra_rely(self, eng, st, anchor=""):
        """the freshly created handle is known to nobody else yet, except to its own task wrapper, which can only remove it"""
        return []


class FactoryRunBackgroundTask(FnSpec):
    """C09: the task wrapper runs the task with the factory's own context as parent and removes the handle when the task has ended,
    on every outcome."""
    qual = "_concurrent.TaskFactory._run_background_task"
    properties = ("C09",)
    param_types = {"func": ANY, "task_handle": INST("TaskHandle"), "exception_handler": ANY, "task_status": LIB("TaskStatus")}
    modifies = "rely"
    suspends = True

    def requires(self, F):
        f = F.addr("self")
        c = F.old.fld("_ctx", f)
        return [("factory-context-initialised", z3.And(Val.is_ref(c), is_ctx(F.old, Val.a(c)),
                                                       z3.Implies(subcls(F.old.fld("__class__", Val.a(c)), con("ComponentContext")),
                                                                  z3.Select(F.old.g("g:cc_init"), Val.a(c))))),
                ("handle-is-registered", F.old.s_has(Val.a(F.old.fld("_tasks", f)), F.t("task_handle")))] + private_handle_set(F)

    def extra_rely(self, eng, st, anchor=""):
        f = Val.a(st.env["self"].t)
        h = st.env["task_handle"].t
        st.uses.add("A-TF1")

        def keep(old, new):
            ts = Val.a(old.fld("_tasks", f))
            return z3.And(new.fld("_tasks", f) == old.fld("_tasks", f), new.fld("_ctx", f) == old.fld("_ctx", f),
                          z3.Implies(old.s_has(ts, h), new.s_has(ts, h)))
        return [("A-TF1:only-the-wrapper-removes-its-handle", keep)]

    def _common(self, F):
        tr = F.new_st.trace
        calls = [e for e in tr if e[0] == "spec_call" and e[1] == "_concurrent.run_background_task"]
        rem = [e for e in tr if e[0] in ("sdiscard", "sremove")]
        f = F.addr("self")
        out = [("runs-the-task-exactly-once", z3.BoolVal(len(calls) == 1)),
               ("removes-the-handle-on-every-outcome", z3.BoolVal(len(rem) == 1))]
        if len(calls) == 1:
            a = calls[0][2]
            out.append(("task-context-parent-is-the-factory-context", a["ctx"].t == F.old.fld("_ctx", f)))
            out.append(("passes-func-handle-handler", z3.And(a["func"].t == F.t("func"), a["task_handle"].t == F.t("task_handle"),
                                                              a["exception_handler"].t == F.t("exception_handler"))))
        if len(rem) == 1:
            out.append(("removes-its-own-handle", rem[0][2].t == F.t("task_handle")))
            out.append(("handle-gone-afterwards", z3.Not(F.new.s_has(Val.a(F.new.fld("_tasks", f)), F.t("task_handle")))))
        return out

    def local_ensures(self, F):
        return self._common(F)

    def local_raises(self, F):
        return self._common(F)


def register(reg):
    reg.lib_classes |= {"CancelScope", "AnyioEvent", "TaskStatus", "TaskGroup"}
    reg.schema["TaskHandle"] = {"name": ANY, "start_value": ANY, "_cancel_scope": LIB("CancelScope"), "_finished_event": LIB("AnyioEvent")}
    reg.schema["TaskFactory"] = {"exception_handler": ANY, "_finished_event": LIB("AnyioEvent"), "_task_group": LIB("TaskGroup"),
                                 "_tasks": SET(INST("TaskHandle")), "_ctx": INST("Context")}
    reg.lib_schema["TaskGroup"] = {"cancel_scope": LIB("CancelScope")}
    for cls, f in (("TaskHandle", "_cancel_scope"), ("TaskHandle", "_finished_event"), ("TaskFactory", "_tasks"),
                   ("TaskFactory", "_finished_event")):
        reg.immutable_fields.add((cls, f))
    LI2 = z3.ArraySort(I, z3.ArraySort(I, Val))
    reg.ghost_comps.update({"g:spawn_n": AI, "g:spawn_f": LI2, "g:spawn_a1": LI2, "g:spawn_a2": LI2, "g:spawn_a3": LI2})
    reg.default_factory_alias = {"Event": "AnyioEvent", "CancelScope": "CancelScope"}
    T = reg.assumptions_text
    T["A-TG3"] = ("tg.start_soon(f, *a): does not run f synchronously, does not suspend; raises RuntimeError and spawns nothing if the group "
                  "is not active; otherwise f(*a) eventually runs as a task inheriting a copy of the spawner's contextvars")
    T["A-TG4"] = "await tg.start(f, *a): as start_soon, returns the value passed to task_status.started(); raises if the task ends before that"
    T["A-CS"] = ("CancelScope: cancel() is synchronous and idempotent; leaving the scope swallows exactly its own cancellation; distinct scopes "
                 "are independent")
    T["A-EV"] = "anyio.Event: set() is synchronous, idempotent, never raises; wait() returns only when the event is set (or raises cancellation)"
    T["A-TF1"] = "a task handle is removed from the factory's handle set only by its own task wrapper"

    # ---- CancelScope
    def cs_init(eng, st, recv, pos, kw, node, awaited):
        st.heap["g:cs_cancelled"] = z3.Store(st.heap["g:cs_cancelled"], Val.a(recv.t), False)
        return [Res(st, NONE_SV)]
    reg.lib_methods["CancelScope.__init__"] = cs_init

    def cs_cancel(eng, st, recv, pos, kw, node, awaited):
        st.uses.add("A-CS")
        st.heap["g:cs_cancelled"] = z3.Store(st.heap["g:cs_cancelled"], Val.a(recv.t), True)
        st.trace.append(("cs_cancel", recv))
        return [Res(st, NONE_SV)]
    reg.lib_methods["CancelScope.cancel"] = cs_cancel
    reg.ext_calls["anyio.CancelScope"] = lambda eng, st, pos, kw, node: [Res(st, _mk(eng, st, "CancelScope", "g:cs_cancelled"))]

    def _mk(eng, st, cls, flag):
        v = new_lib(eng, st, cls)
        st.heap[flag] = z3.Store(st.heap[flag], Val.a(v.t), False)
        return v

    def cs_enter(eng, st, cm, is_async, item):
        st.uses.add("A-CS")
        st.trace.append(("cs_enter", cm))
        if eng.spec is not None and hasattr(eng.spec, "on_lib_call"):
            eng.spec.on_lib_call(eng, st, "CancelScope.__enter__", cm, [])
        return [Res(st, cm)]

    def cs_exit(eng, o, cm, is_async, item):
        """swallows exactly its own cancellation"""
        st = o.st
        if o.kind != "raise":
            return [o]
        e = o.val
        own = z3.And(subcls(st.fld("__class__", Val.a(e.t)), con("Cancelled")), cs_cancelled(HeapView(st.heap), Val.a(cm.t)))
        s1, s2 = st.fork(own, "own-cancellation-swallowed"), st.fork(z3.Not(own))
        out = []
        if eng.feasible(s1):
            out.append(Outcome("normal", s1))
        if eng.feasible(s2):
            out.append(Outcome("raise", s2, e))
        return out
    reg.lib_cms["CancelScope"] = (cs_enter, cs_exit)

    # ---- Event
    def ev_init(eng, st, recv, pos, kw, node, awaited):
        st.heap["g:ev_set"] = z3.Store(st.heap["g:ev_set"], Val.a(recv.t), False)
        return [Res(st, NONE_SV)]
    reg.lib_methods["AnyioEvent.__init__"] = ev_init
    reg.ext_calls["anyio.Event"] = lambda eng, st, pos, kw, node: [Res(st, _mk(eng, st, "AnyioEvent", "g:ev_set"))]

    def ev_set(eng, st, recv, pos, kw, node, awaited):
        st.uses.add("A-EV")
        if eng.spec is not None and hasattr(eng.spec, "on_lib_call"):
            eng.spec.on_lib_call(eng, st, "AnyioEvent.set", recv, pos)
        st.heap["g:ev_set"] = z3.Store(st.heap["g:ev_set"], Val.a(recv.t), True)
        st.trace.append(("ev_set", recv))
        return [Res(st, NONE_SV)]
    reg.lib_methods["AnyioEvent.set"] = ev_set

    def ev_wait(eng, st, recv, pos, kw, node, awaited):
        st.uses.add("A-EV")
        out = []
        for r in eng.suspend(st, recv, "await-event"):
            if r.exc is None:
                r.st.assume(ev_is_set(HeapView(r.st.heap), Val.a(recv.t)))
            out.append(r)
        return out
    reg.lib_methods["AnyioEvent.wait"] = ev_wait

    def g_ev_set(old, new):
        """events stay set (asphalt never clears an event; anyio.Event has no clear())"""
        x = z3.Const("x!ges", I)
        return z3.ForAll([x], z3.Implies(z3.And(0 <= x, x < old.alloc, ev_is_set(old, x)), ev_is_set(new, x)), patterns=[ev_is_set(new, x)])
    reg.guarantees.append(("G-evset:events-stay-set", g_ev_set, ("g:ev_set",)))

    # ---- TaskStatus
    def ts_started(eng, st, recv, pos, kw, node, awaited):
        st.trace.append(("lib", "TaskStatus.started", recv))
        return [Res(st, NONE_SV)]
    reg.lib_methods["TaskStatus.started"] = ts_started

    # ---- TaskGroup.start_soon / start (A-TG3/4): ghost spawn log per group
    def _log_spawn(st, tg, pos):
        n = z3.Select(st.heap["g:spawn_n"], tg)
        vals = [p.t for p in pos] + [VNone] * 4
        for comp, v in zip(("g:spawn_f", "g:spawn_a1", "g:spawn_a2", "g:spawn_a3"), vals):
            st.heap[comp] = z3.Store(st.heap[comp], tg, z3.Store(z3.Select(st.heap[comp], tg), n, v))
        st.heap["g:spawn_n"] = z3.Store(st.heap["g:spawn_n"], tg, n + 1)

    def tg_start_soon(eng, st, recv, pos, kw, node, awaited):
        st.uses.add("A-TG3")
        tg = Val.a(recv.t)
        act = z3.Select(st.heap["g:tg_active"], tg)
        ok, bad = st.fork(act), st.fork(z3.Not(act), "group-inactive")
        out = []
        if eng.feasible(ok):
            if eng.spec is not None and hasattr(eng.spec, "on_lib_call"):
                eng.spec.on_lib_call(eng, ok, "TaskGroup.start_soon", recv, pos)
            _log_spawn(ok, tg, pos)
            for p in pos:
                eng.escape(ok, p)
            ok.trace.append(("spawn", recv, pos))
            out.append(Res(ok, NONE_SV))
        if eng.feasible(bad):
            out.append(eng.raise_new(bad, "RuntimeError"))
        return out
    reg.lib_methods["TaskGroup.start_soon"] = tg_start_soon

    def tg_start(eng, st, recv, pos, kw, node, awaited):
        st.uses.add("A-TG4")
        tg = Val.a(recv.t)
        act = z3.Select(st.heap["g:tg_active"], tg)
        ok, bad = st.fork(act), st.fork(z3.Not(act), "group-inactive")
        out = []
        if eng.feasible(ok):
            _log_spawn(ok, tg, pos)
            for p in pos:
                eng.escape(ok, p)
            ok.trace.append(("spawn", recv, pos))
            out.extend(eng.suspend(ok, recv, "await-task-started"))
        if eng.feasible(bad):
            out.append(eng.raise_new(bad, "RuntimeError"))
        return out
    reg.lib_methods["TaskGroup.start"] = tg_start

    # task group as a context manager (TaskFactory._run, _start_component, start_component)
    def tg_enter(eng, st, cm, is_async, item):
        st.heap["g:tg_active"] = z3.Store(st.heap["g:tg_active"], Val.a(cm.t), True)
        return [Res(st, cm)]

    def tg_exit(eng, o, cm, is_async, item):
        from .lib_anyio import register as _r  # noqa
        exc_in = o.val if o.kind == "raise" else None
        out = []
        for (s1, e1) in reg._k_taskgroup(eng, o.st, cm.t, VNone, exc_in, "with-task-group"):
            if e1 is None:
                out.append(Outcome(o.kind if o.kind != "raise" else "normal", s1, o.val if o.kind != "raise" else None))
            else:
                out.append(Outcome("raise", s1, e1))
        return out
    reg.lib_cms["TaskGroup"] = (tg_enter, tg_exit)

    for s in (HandleCancel, HandleWait, RunBackgroundTask, FactoryAllHandles, FactoryStartSoon, FactoryStart, FactoryRunBackgroundTask):
        reg.add(s)


# =============================================================================================== Context.start_service_task (C08)

SST = "_context.Context.start_service_task"


class FinalizeServiceTask(FnSpec):
    """C08: the finaliser registered by start_service_task: 'cancel' -> cancel the task; callable -> call it exactly once (await its
    awaitable), cancel the task iff it raised; None -> neither; then, on every path, wait until the task AND its context have finished."""
    qual = SST + ".finalize_service_task"
    properties = ("C08", "C09")
    modifies = "rely"
    suspends = True
    cell_types = {"task_handle": INST("TaskHandle"), "teardown_action": ANY, "name": ANY}

    def init_ghost(self, eng, st):
        st.ghost["n_action_calls"] = 0
        st.ghost["action_raised"] = False

    def _action(self, st):
        return st.fld("cell:teardown_action", st.ghost["outer_env"])

    def on_opaque_call(self, eng, st, f, args, anchor):
        eng.oblige(st, "post", "calls-only-the-teardown-action", f.t == self._action(st), anchor)
        eng.oblige(st, "post", "teardown-action-called-without-arguments", z3.BoolVal(len(args) == 0), anchor)
        st.ghost["n_action_calls"] = st.ghost["n_action_calls"] + 1

    def after_opaque_call(self, eng, st_before, st_after, f, args, result, exc, anchor):
        st_after.ghost = dict(st_after.ghost)
        if exc is not None:
            st_after.ghost["action_raised"] = True
        else:
            st_after.ghost["pending_awaitable"] = result.t

    def on_await(self, eng, st, awaited, anchor):
        eng.oblige(st, "post", "awaits-the-actions-awaitable", awaited.t == st.ghost.get("pending_awaitable", VNone), anchor)

    def after_await(self, eng, st_before, st_after, awaited, result, exc, anchor):
        if exc is not None:
            st_after.ghost = dict(st_after.ghost)
            st_after.ghost["action_raised"] = True

    def _clauses(self, F, normal):
        g = F.new_st.ghost
        env = F.old_st.ghost["outer_env"]
        action = F.old.fld("cell:teardown_action", env)
        handle = F.old.fld("cell:task_handle", env)
        tr = F.new_st.trace
        cancels = [e for e in tr if e[0] == "spec_call" and e[1] == "_concurrent.TaskHandle.cancel"]
        waits = [e for e in tr if e[0] == "spec_call" and e[1] == "_concurrent.TaskHandle.wait_finished"]
        n, raised = g["n_action_calls"], g["action_raised"]
        is_cancel = action == sid("cancel")
        is_none = action == VNone
        out = [
            ("action-called-exactly-once-iff-callable", z3.If(z3.Or(is_cancel, is_none), z3.BoolVal(n == 0), z3.BoolVal(n == 1))),
            ("cancelled-as-the-action-dictates", z3.If(is_cancel, z3.BoolVal(len(cancels) == 1),
                                                       z3.If(is_none, z3.BoolVal(len(cancels) == 0),
                                                             z3.BoolVal(len(cancels) == (1 if raised else 0))))),
            ("cancels-and-waits-for-its-own-task", z3.And(*[e[2]["self"].t == handle for e in cancels + waits])),
        ]
        if normal:
            out += [("waits-for-the-task-last", z3.BoolVal(len(waits) == 1 and tr and [e for e in tr if e[0] == "spec_call"][-1] is waits[-1])),
                    ("returns-only-after-task-and-context-finished", ev_is_set(F.new, finished_event(F.old, Val.a(handle))))]
        return out

    def local_ensures(self, F):
        return self._clauses(F, True)

    def local_raises(self, F):
        # the only way out by exception is the wait itself being cancelled (excluded by the statement) - still no extra calls
        return self._clauses(F, False)


class StartServiceTask(FnSpec):
    """C08 / C01 route 4: validates teardown_action first; starts run_background_task(func, self, handle) in the context's task group;
    only after the task has started registers the finaliser (so it runs before every callback registered earlier)."""
    qual = SST
    properties = ("C08", "C01", "C09", "C15")
    param_types = {"func": ANY, "name": ANY, "teardown_action": ANY}
    modifies = "rely"
    suspends = True

    def requires(self, F):
        c = F.addr("self")
        return [("initialised-context", is_ctx(F.old, c))]

    def _facts(self, F):
        tr = F.new_st.trace
        spawns = [e for e in tr if e[0] == "spawn"]
        regs = [e for e in tr if e[0] == "spec_ret" and e[1] == "_context.Context.add_teardown_callback"]
        return tr, spawns, regs

    def local_ensures(self, F):
        tr, spawns, regs = self._facts(F)
        ta = F.t("teardown_action")
        out = [("teardown_action-was-valid", z3.Or(ta == sid("cancel"), ta == VNone, callable_u(ta))),
               ("one-task-started-then-one-finaliser-registered", z3.BoolVal(len(spawns) == 1 and len(regs) == 1 and tr.index(spawns[0]) < tr.index(regs[0])))]
        if len(spawns) == 1 and len(regs) == 1:
            sp, rg = spawns[0], regs[0]
            handle = sp[2][3].t if len(sp[2]) > 3 else VNone
            out += [
                ("spawned-in-own-task-group", sp[1].t == F.old.fld("_task_group", F.addr("self"))),
                ("runs-run_background_task(func, self, handle)", z3.And(sp[2][0].t == con("func:_concurrent.run_background_task"), sp[2][1].t == F.t("func"),
                                                                       sp[2][2].t == F.t("self"), F.fresh(handle))),
                ("finaliser-registered-on-this-context", z3.And(rg[2]["self"].t == F.t("self"), rg[2]["pass_exception"].t == vbool(False))),
                ("finaliser-is-the-closure-over-this-handle", z3.And(
                    rg[2]["callback"].t == Val.bm(vref(F.new_st.envref), z3.IntVal(METHS.id("closure:" + FinalizeServiceTask.qual))),
                    F.new.fld("cell:task_handle", F.new_st.envref) == handle,
                    F.new.fld("cell:teardown_action", F.new_st.envref) == ta)),
            ]
        return out

    def local_raises(self, F):
        tr, spawns, regs = self._facts(F)
        ta = F.t("teardown_action")
        valid = z3.Or(ta == sid("cancel"), ta == VNone, callable_u(ta))
        return [("invalid-teardown_action-raises-ValueError-nothing-started", z3.Implies(z3.Not(valid), z3.And(F.exc_is("ValueError"), z3.BoolVal(not spawns and not regs)))),
                ("no-finaliser-unless-the-task-started", z3.BoolVal(len(regs) == 0))]


def register2(reg):
    reg.add(FinalizeServiceTask)
    reg.add(StartServiceTask)


class FactoryRun(FnSpec):
    """C09: TaskFactory._run (the factory's service task): binds the factory to the context current in the service task, opens the
    factory's task group, reports started() only then, and leaves the group - i.e. waits for every background task (A-TG2) - only
    after the finished event was set (the teardown action of the service task)."""
    qual = "_concurrent.TaskFactory._run"
    properties = ("C09",)
    param_types = {"task_status": LIB("TaskStatus")}
    modifies = "rely"
    suspends = True
    may_raise = True

    def requires(self, F):
        return private_handle_set(F) + [("a-factory-is-not-a-context", z3.Not(is_ctx(F.old, F.addr("self"))))]

    def local_ensures(self, F):
        tr = F.new_st.trace
        f = F.addr("self")
        starts = [i for i, e in enumerate(tr) if e[0] == "lib" and "started" in str(e[1])]
        waits = [i for i, e in enumerate(tr) if e[0] == "suspend" and "await-event" in str(e[1])]
        exits = [i for i, e in enumerate(tr) if e[0] == "suspend" and "task-group-exit" in str(e[1])]
        return [("started-reported-once-inside-the-open-group-before-waiting",
                 z3.BoolVal(len(starts) == 1 and len(waits) == 1 and starts[0] < waits[0])),
                ("waits-for-the-finished-event-before-leaving-the-group",
                 z3.BoolVal(len(waits) == 1 and len(exits) >= 1 and waits[0] < exits[0])),
                ("returns-only-after-the-finished-event-was-set", ev_is_set(F.new, Val.a(F.old.fld("_finished_event", f))))]


class StartBackgroundTaskFactory(FnSpec):
    """C09: Context.start_background_task_factory: a new factory with the given exception handler, hosted by exactly one service task of
    this context running factory._run, whose teardown action is factory._finished_event.set (teardown signals and then waits: C08)."""
    qual = "_context.Context.start_background_task_factory"
    properties = ("C09",)
    param_types = {"exception_handler": ANY}
    modifies = "rely"
    suspends = True
    may_raise = True

    def requires(self, F):
        return [("initialised-context", is_ctx(F.old, F.addr("self")))]

    def _clauses(self, F, normal):
        tr = F.new_st.trace
        calls = [e for e in tr if e[0] == "spec_call" and e[1] == "_context.Context.start_service_task"]
        news = [e for e in tr if e[0] == "new" and e[1] == "TaskFactory"]
        out = [("one-factory-one-service-task", z3.BoolVal(len(news) == 1 and len(calls) == 1))]
        if len(news) == 1 and len(calls) == 1:
            fa = news[0][2]
            a = calls[0][2]
            H = calls[0][3]
            out.append(("service-task-of-this-context-runs-the-factory",
                        z3.And(a["self"].t == F.t("self"), a["func"].t == Val.bm(vref(fa), z3.IntVal(METHS.id("_run"))))))
            out.append(("teardown-action-sets-the-factory-finished-event",
                        a["teardown_action"].t == Val.bm(H.fld("_finished_event", fa), z3.IntVal(METHS.id("set")))))
            out.append(("factory-gets-the-exception-handler", H.fld("exception_handler", fa) == F.t("exception_handler")))
            if normal:
                out.append(("returns-the-factory", F.result.t == vref(fa)))
        return out

    def local_ensures(self, F):
        return self._clauses(F, True)

    def local_raises(self, F):
        return self._clauses(F, False)


def register3(reg):
    reg.add(FactoryRun)
    reg.add(StartBackgroundTaskFactory)
