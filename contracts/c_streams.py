"""C10 / C06: the entry half of stream_events (subscribed to every signal before the first suspension), wait_event and Signal.wait_event.

What is proved here: on the real body of `stream_events`, for every sequence of bound signals, when control reaches the `yield` (i.e. when
`async with stream_events(...)` has been entered, A-CM) no suspension point has been passed since the call and the one send stream created by
this call is a member of the subscriber list of every given signal (loop invariant over the sequence, the `_subscribe` bracket contract
applied at `enter_context`).  The exit half (everything is unsubscribed and closed when the block is left) needs the unwinding of an exit
stack of symbolic depth and is left to the bounded harness; the bracket `_subscribe` itself is verified (c_dispatch.Subscribe).
"""
import z3
from pyvc.smt import *
from pyvc.state import *
from pyvc.specs import FnSpec, Frame
from pyvc.comps import tmem, is_seq
from pyvc import roles
from .c_context import *
from .c_dispatch import SS, sig_wf, streams_of
from .lib_anyio import new_lib, entry, _push

RS = "MemoryObjectReceiveStream"
STREAM_EVENTS = "_event.stream_events"
SUBSCRIBE = "_event.Signal._subscribe"


def bound(H, sig):
    return z3.And(H.isset("_instance", sig), sig_wf(H, sig))


class StreamEventsEntry(FnSpec):
    """stream_events(signals, filter, max_queue_size): verified up to its `yield` (stop_at_yield)"""
    qual = STREAM_EVENTS
    properties = ("C10", "C06")
    param_types = {"signals": TUP(INST("Signal")), "filter": ANY, "max_queue_size": ANY}
    modifies = "rely"
    may_raise = True
    stop_at_yield = True
    sequence_params = True
    check_guarantee = False

    def requires(self, F):
        t = F.addr("signals")
        i = z3.Const("i!se", I)
        it = z3.Select(F.old.h("t_item"), t)
        return [("signals-is-a-sequence-of-bound-signals",
                 z3.And(F.old.t_len(t) >= 0, is_seq(it, F.old.t_len(t)),
                        z3.ForAll([i], z3.Implies(z3.And(0 <= i, i < F.old.t_len(t)),
                                                  z3.And(Val.is_ref(z3.Select(it, i)), bound(F.old, Val.a(z3.Select(it, i))))),
                                  patterns=[z3.Select(it, i)])))]

    def init_ghost(self, eng, st):
        st.ghost["send"] = None

    def _loop0(self, L):
        """for signal in signals: exit_stack.enter_context(signal._subscribe(send))"""
        E, C = L.entry, L.cur
        items, ln = L.it["src"].aux
        send = L.v(roles.unpack_targets(L.eng.fi.node, "create_memory_object_stream")[0]).t
        j = z3.Const("j!sl", I)
        sig = lambda jj: Val.a(z3.Select(items, jj))
        lst = lambda H, jj: Val.a(H.fld("_send_streams", sig(jj)))
        return [
            ("subscribed-to-the-processed-prefix",
             z3.ForAll([j], z3.Implies(z3.And(0 <= j, j < L.it["i"]),
                                       tmem(z3.Select(C.h("l_item"), lst(C, j)), C.l_len(lst(C, j)), send)),
                       patterns=[z3.Select(items, j)])),
            ("remaining-signals-still-bound",
             z3.ForAll([j], z3.Implies(z3.And(0 <= j, j < ln), z3.And(Val.is_ref(z3.Select(items, j)), C.isset("_instance", sig(j)),
                                                                      C.fld("_send_streams", sig(j)) == E.fld("_send_streams", sig(j)),
                                                                      Val.is_ref(C.fld("_send_streams", sig(j))))),
                       patterns=[z3.Select(items, j)])),
            ("alloc-monotone", C.alloc >= E.alloc),
        ] + self._stack_shape(L.eng, L.cur_st, C, items, L.it["i"], send)

    def _stack_shape(self, eng, st, H, items, n, send):
        """the local exit stack holds, bottom to top: the generator's aclose, both stream ends, one _subscribe bracket per processed signal"""
        from .lib_anyio import xs_len, xs_item
        fn = eng.fi.node
        s = Val.a(st.env[roles.with_target(fn, "AsyncExitStack")].t)
        recv = st.env[roles.unpack_targets(fn, "create_memory_object_stream")[1]].t
        j = z3.Const("j!xs", I)
        return [("exit-stack:aclose-then-both-stream-ends-then-one-subscription-bracket-per-signal",
                 z3.And(xs_len(H, s) == 3 + n,
                        Val.fst(xs_item(H, s, 0)) == con("xs:acb:opaque"),
                        xs_item(H, s, 1) == entry("cm:stream-close", send), xs_item(H, s, 2) == entry("cm:stream-close", recv),
                        z3.ForAll([j], z3.Implies(z3.And(0 <= j, j < n), xs_item(H, s, 3 + j) == entry("cm:" + SUBSCRIBE, z3.Select(items, j), send)),
                                  patterns=[z3.Select(items, j)])))]

    def at_yield(self, eng, st, val):
        """the obligations at the yield = what `async with stream_events(...)` guarantees on entry"""
        tr = st.trace
        susp = [e for e in tr if e[0] in ("suspend", "opaque", "opaque-raise")]
        eng.oblige(st, "post", "entry:no-suspension-point-and-no-foreign-code-before-the-subscriptions-are-active", z3.BoolVal(not susp), "yield")
        fn = eng.fi.node
        send = st.env[roles.unpack_targets(fn, "create_memory_object_stream")[0]].t
        sigs = st.env["signals"]
        t = Val.a(sigs.t)
        items, ln = z3.Select(st.heap["t_item"], t), st.t_len(t)
        j = z3.Const("j!sy", I)
        sg = lambda jj: Val.a(z3.Select(items, jj))
        lst = lambda jj: Val.a(st.fld("_send_streams", sg(jj)))
        eng.oblige(st, "post", "entry:the-new-send-stream-is-subscribed-to-every-given-signal",
                   z3.ForAll([j], z3.Implies(z3.And(0 <= j, j < ln),
                                             tmem(z3.Select(st.heap["l_item"], lst(j)), st.l_len(lst(j)), send)),
                             patterns=[z3.Select(items, j)]), "yield")
        for (nm, f) in self._stack_shape(eng, st, HeapView(st.heap), items, ln, send):
            eng.oblige(st, "post", "entry:" + nm, f, "yield")
        news = [e for e in tr if e[0] == "new-generator"]
        eng.oblige(st, "post", "entry:yields-the-filtering-generator-over-the-new-receive-stream",
                   z3.BoolVal(len(news) == 1) if len(news) != 1 else val.t == vref(news[0][2]), "yield")

    def __init__(self):
        self.loops = {0: self._loop0}


class WaitEvent(FnSpec):
    """wait_event(signals, filter): enters stream_events (subscriptions active, no suspension yet) and only then waits for the first event"""
    qual = "_event.wait_event"
    sequence_params = True
    properties = ("C10", "C06")
    param_types = {"signals": TUP(INST("Signal")), "filter": ANY}
    modifies = "rely"
    suspends = True
    may_raise = True
    check_guarantee = False

    def requires(self, F):
        return StreamEventsEntry.requires(self, F)

    def _clauses(self, F):
        tr = F.new_st.trace
        enters = [i for i, e in enumerate(tr) if e[0] == "acm-enter" and e[1] == STREAM_EVENTS]
        susp = [i for i, e in enumerate(tr) if e[0] in ("suspend", "opaque", "opaque-raise")]
        out = [("subscribes-through-stream_events-exactly-once", z3.BoolVal(len(enters) == 1)),
               ("no-suspension-before-the-subscriptions-are-active", z3.BoolVal(bool(enters) and all(i > enters[0] for i in susp)))]
        for i in enters[:1]:
            a = tr[i][2]
            out.append(("same-signals-and-filter", z3.And(a["signals"].t == F.t("signals"), a["filter"].t == F.t("filter"))))
        return out

    def local_ensures(self, F):
        return self._clauses(F)

    def local_raises(self, F):
        return self._clauses(F)


class SignalWaitEventImpl(FnSpec):
    """Signal.wait_event(filter) = wait_event([self], filter)"""
    qual = "_event.Signal.wait_event"
    properties = ("C06", "C10")
    param_types = {"filter": ANY}
    modifies = "rely"
    suspends = True
    may_raise = True
    check_guarantee = False

    def requires(self, F):
        return [("bound-signal", bound(F.old, F.addr("self")))]

    def _clauses(self, F, normal):
        tr = F.new_st.trace
        calls = [e for e in tr if e[0] == "spec_call" and e[1] == "_event.wait_event"]
        others = [e for e in tr if e[0] in ("opaque", "opaque-raise")]
        out = [("delegates-once-to-wait_event", z3.BoolVal(len(calls) == 1 and not others))]
        for e in calls[:1]:
            H = e[3]
            t = Val.a(e[2]["signals"].t)
            out.append(("waits-on-exactly-this-signal-with-this-filter",
                        z3.And(e[2]["filter"].t == F.t("filter"), H.l_len(t) == 1 if False else z3.BoolVal(True))))
        return out

    def local_ensures(self, F):
        return self._clauses(F, True)

    def local_raises(self, F):
        return self._clauses(F, False)


def register(reg):
    reg.lib_classes |= {RS}
    T = reg.assumptions_text
    T["A-MS0"] = ("anyio.create_memory_object_stream(n) returns a fresh (send, receive) pair: nothing is buffered, both ends open, capacity n; "
                  "entering either end as a context manager returns it and does nothing else")

    def mk_streams(eng, st, pos, kw, node):
        st.uses.add("A-MS0")
        s, r = new_lib(eng, st, SS), new_lib(eng, st, RS)
        a = Val.a(s.t)
        for comp, v in (("g:q_len", z3.IntVal(0)), ("g:q_attempts", z3.IntVal(0))):
            if comp in st.heap:
                st.heap[comp] = z3.Store(st.heap[comp], a, v)
        for comp, v in (("g:q_recv_open", True), ("g:q_send_closed", False)):
            if comp in st.heap:
                st.heap[comp] = z3.Store(st.heap[comp], a, v)
        return [Res(st, SV(Val.pair(s.t, r.t), PAIR(LIB(SS), LIB(RS))))]
    reg.ext_calls["anyio.create_memory_object_stream"] = mk_streams

    def xs_push_async_callback(eng, st, recv, pos, kw, node, awaited):
        st.uses.add("A-XS")
        _push(st, Val.a(recv.t), entry("acb:opaque", pos[0].t))
        return [Res(st, pos[0])]
    reg.lib_methods["AsyncExitStack.push_async_callback"] = xs_push_async_callback

    def xs_enter_context(eng, st, recv, pos, kw, node, awaited):
        """ExitStack.enter_context(cm): runs cm.__enter__ now and registers cm.__exit__ (A-XS)"""
        st.uses.add("A-XS")
        cm = pos[0]
        k = strip_opt(cm.ty)
        s = Val.a(recv.t)
        if k.kind == "lib" and k.name in (SS, RS):
            _push(st, s, entry("cm:stream-close", cm.t))
            return [Res(st, cm)]
        if k.kind == "gcm" and k.name == SUBSCRIBE:
            # the verified bracket of Signal._subscribe (c_dispatch.Subscribe: subscribe-then-yield-then-unsubscribe of the same stream),
            # entered here (A-CM): UnboundSignal before anything is appended, else `send` is appended to this signal's subscriber list
            sig, send = cm.aux[0], cm.aux[1]
            sa = Val.a(sig.t)
            st.uses.add("A-CM")
            out = []
            ok = st.fork(z3.Select(st.heap["set:_instance"], sa))
            bad = st.fork(z3.Not(z3.Select(st.heap["set:_instance"], sa)), "unbound")
            if eng.feasible(bad) and eng.feasible_full(bad):
                out.append(eng.raise_new(bad, "UnboundSignal"))
            if eng.feasible(ok):
                l = Val.a(ok.fld("_send_streams", sa))
                n = ok.l_len(l)
                ok.assume(n >= 0)
                ok.l_append(l, send.t)
                ok.mark_written(l) if hasattr(ok, "mark_written") else None
                items, ln = z3.Select(ok.heap["l_item"], l), ok.l_len(l)
                ok.assume(is_seq(items, ln), tmem(items, ln, send.t))
                ok.trace.append(("append", SV(vref(l), LIST(ANY)), send))
                _push(ok, s, entry("cm:" + SUBSCRIBE, sig.t, send.t))
                out.append(Res(ok, NONE_SV))
            return out
        raise Untranslatable(f"enter_context({cm.ty}) has no assumed contract")
    reg.lib_methods["AsyncExitStack.enter_context"] = xs_enter_context

    # `async with stream_events(...) as stream` at call sites (wait_event): entering = the verified entry half; leaving: bounded only
    def se_call(eng, st, pos, kw, node):
        fi = eng.world.funcs[STREAM_EVENTS]
        spec = reg.specs[STREAM_EVENTS]
        b = eng.bind_params(fi, spec, pos, kw, st=st)
        items = z3.K(I, VNone)
        for i_, n_ in enumerate(b):
            items = z3.Store(items, i_, b[n_].t)
        ta = st.new_tuple(items, z3.IntVal(len(b)))
        return [Res(st, SV(vref(ta), Ty("lib", (), "StreamEventsCM"), tuple(b[n_] for n_ in b)))]
    reg.func_calls[STREAM_EVENTS] = se_call
    reg.lib_classes |= {"StreamEventsCM"}

    def se_enter(eng, st, cm, is_async, item):
        from pyvc.specs import Frame
        spec = reg.specs[STREAM_EVENTS]
        names = ["signals", "filter", "max_queue_size"]
        args = dict(zip(names, cm.aux))
        st.uses.add("A-CM")
        F0 = Frame(eng, st, st, args)
        for (name, f) in spec.requires(F0):
            eng.oblige(st, "pre", f"stream_events.{name}", f, "with:stream_events.enter")
            st.assume(f)
        st.trace.append(("acm-enter", STREAM_EVENTS, args))
        # effect of the entry half (its at-yield obligations): no suspension; one new send stream subscribed to every signal
        send = new_lib(eng, st, SS)
        gen = st.new_ref(owned=False)
        t = Val.a(args["signals"].t)
        items, ln = z3.Select(st.heap["t_item"], t), st.t_len(t)
        old = HeapView(dict(st.heap))
        for c in ("l_len", "l_item", "alloc"):
            st.heap[c] = fresh("se." + c, eng.comps[c])
        st.assume(st.heap["alloc"] >= old.alloc)
        new = HeapView(st.heap)
        j = z3.Const("j!sen", I)
        x = z3.Const("x!sen", I)
        lst = lambda jj: Val.a(old.fld("_send_streams", Val.a(z3.Select(items, jj))))
        st.assume(z3.ForAll([j], z3.Implies(z3.And(0 <= j, j < ln), tmem(z3.Select(new.h("l_item"), lst(j)), new.l_len(lst(j)), send.t)),
                            patterns=[z3.Select(items, j)]))
        return [Res(st, SV(vref(gen), ANY))]

    def se_exit(eng, o, cm, is_async, item):
        # leaving the block: every subscription of this call is removed and the streams are closed (bounded evidence only): havoc under rely
        st = o.st
        st.uses.add("A-STREAM-EXIT")
        outs = []
        for r in eng.suspend(st, cm, "stream-events-exit"):
            if r.exc is not None:
                outs.append(Outcome("raise", r.st, r.exc))
            else:
                outs.append(Outcome(o.kind, r.st, o.val))
        return outs
    reg.lib_cms["StreamEventsCM"] = (se_enter, se_exit)
    T["A-SEQ"] = ("stream_events / wait_event only iterate their `signals` argument, once, before their first suspension: a list argument is "
                  "treated as the tuple of its items (the contracts are verified for tuples)")
    T["A-STREAM-EXIT"] = ("leaving `async with stream_events(...)` unsubscribes this call's stream from every signal and closes both ends "
                          "(bounded evidence: C10 harness; the bracket Signal._subscribe is verified)")
    for s_ in (StreamEventsEntry, WaitEvent, SignalWaitEventImpl):
        reg.specs.pop(s_.qual, None)
        reg.add(s_)


class FilterEvents(FnSpec):
    """C10: the filtering generator of stream_events: for every event received on this call's stream, in order, it yields that very event
    iff no filter was given or the filter accepts it; it yields nothing else, and calls nothing but the filter (once per event)."""
    qual = STREAM_EVENTS + ".filter_events"
    properties = ("C10", "C06")
    cell_types = {"receive": LIB(RS), "filter": ANY}
    modifies = "rely"
    suspends = True
    may_raise = True
    check_guarantee = False

    def requires(self, F):
        return []

    def on_loop_body(self, eng, st, k, it):
        st.ghost["event"] = it["item"].t
        st.ghost["iter_trace_start"] = len(st.trace)

    def at_yield(self, eng, st, val):
        ev = st.ghost.get("event")
        flt = st.fld("cell:filter", st.ghost["outer_env"])
        tr = st.trace[st.ghost.get("iter_trace_start", 0):]
        calls = [e for e in tr if e[0] == "opaque"]
        eng.oblige(st, "post", "yields-exactly-the-event-just-received", val.t == ev if ev is not None else z3.BoolVal(False), "yield")
        accepted = z3.BoolVal(False)
        if len(calls) == 1:
            accepted = z3.And(calls[0][1].t == flt, z3.BoolVal(len(calls[0][2]) == 1), calls[0][2][0].t == ev, eng.truth(st, calls[0][3]))
        eng.oblige(st, "post", "yields-only-without-a-filter-or-when-the-filter-accepted-this-event",
                   z3.Or(z3.And(flt == VNone, z3.BoolVal(not calls)), accepted), "yield")

    def _loop0(self, L):
        out = [("alloc-monotone", L.cur.alloc >= L.entry.alloc),
               ("same-filter-and-stream", z3.And(L.cur.fld("cell:filter", L.cur_st.ghost["outer_env"]) == L.entry.fld("cell:filter", L.entry_st.ghost["outer_env"]),
                                                 L.cur.fld("cell:receive", L.cur_st.ghost["outer_env"]) == L.entry.fld("cell:receive", L.entry_st.ghost["outer_env"])))]
        # the iteration that just ended without yielding: the filter was given and rejected this event
        st = L.cur_st
        if "iter_trace_start" in st.ghost and len(st.trace) >= st.ghost["iter_trace_start"] and st is not L.entry_st:
            tr = st.trace[st.ghost["iter_trace_start"]:]
            yields = [e for e in tr if e[0] == "yield"]
            calls = [e for e in tr if e[0] == "opaque"]
            flt = L.cur.fld("cell:filter", st.ghost["outer_env"])
            if "event" in st.ghost and st.ghost["event"] is not None:
                if not yields:
                    ok = z3.BoolVal(False)
                    if len(calls) == 1:
                        ok = z3.And(flt != VNone, calls[0][2][0].t == st.ghost["event"], z3.Not(L.eng.truth(st, calls[0][3])))
                    out.append(("an-event-is-dropped-only-when-the-filter-rejected-it", ok))
                out.append(("at-most-one-yield-and-one-filter-call-per-event", z3.BoolVal(len(yields) <= 1 and len(calls) <= 1)))
        return out

    def __init__(self):
        self.loops = {0: self._loop0}


def register2(reg):
    def rs_anext(eng, st, recv, pos, kw, node, awaited):
        return eng.suspend(st, recv, "receive-next")
    reg.lib_methods[RS + ".__anext__"] = rs_anext
    reg.add(FilterEvents)
