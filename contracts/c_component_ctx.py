"""C06 / C14: the ComponentContext wrappers (what a component's current context is while it starts):
get_resource (optional: one delegated lookup, never waits; otherwise lookup, and on a miss subscribe-without-suspending, wait, look up
again), the wait filter, and the default-name remapping of add_resource / add_resource_factory."""
import z3
from pyvc.smt import *
from pyvc.state import *
from pyvc.specs import FnSpec, Frame
from pyvc.comps import tmem
from .c_context import *
from .c_context_lookup import is_cc
from .c_component import CS
from pyvc import roles

GETRES = "_component.ComponentContext.get_resource"
CTX_GET = "_context.Context.get_resource"
WAIT = "_event.Signal.wait_event"


def cc_requires(F):
    c = F.addr("self")
    return [("initialised-component-context", z3.And(is_ctx(F.old, c), z3.Select(F.old.g("g:cc_init"), c)))]


def backing(H, c):
    return H.fld("_context", c)


class CCGetResource(FnSpec):
    """C06: ComponentContext.get_resource(type, name, optional=...)"""
    qual = GETRES
    properties = ("C06", "C05")
    param_types = {"type": ANY, "name": TSTR, "optional": TBOOL}
    modifies = "rely"
    suspends = True
    may_raise = True

    def requires(self, F):
        return cc_requires(F)

    def _clauses(self, F, normal):
        st = F.new_st
        tr = st.trace
        c = F.addr("self")
        ctx = backing(F.old, c)
        opt = Val.b(F.t("optional"))
        calls = [(i, e) for i, e in enumerate(tr) if e[0] == "spec_call" and e[1] == CTX_GET]
        rets = [(i, e) for i, e in enumerate(tr) if e[0] in ("spec_ret", "spec_raise") and e[1] == CTX_GET]
        waits = [(i, e) for i, e in enumerate(tr) if e[0] == "spec_call" and e[1] == WAIT]
        others = [e for e in tr if e[0] in ("opaque", "opaque-raise") or (e[0] == "spec_call" and e[1] not in (CTX_GET, WAIT)
                                                                           and not F.eng.reg.specs[e[1]].assumed
                                                                           and e[1] != "_event.Signal.__get__")]
        same_args = z3.And(*[z3.And(e[2]["self"].t == ctx, e[2]["type"].t == F.t("type"), e[2]["name"].t == F.t("name")) for _, e in calls])
        opt_args = [e[2]["optional"] for _, e in calls]
        out = [("delegates-only-to-the-backing-context-with-the-same-type-and-name", same_args),
               ("calls-nothing-else", z3.BoolVal(not others))]
        # ---- optional: exactly one delegated lookup with optional=True, no wait
        shape_opt = (len(calls) == 1 and not waits)
        out.append(("optional:one-delegated-lookup-never-waits",
                    z3.Implies(opt, z3.And(z3.BoolVal(shape_opt), *[Val.b(a.t) if a.ty.kind == "bool" else z3.BoolVal(False) for a in opt_args]))))
        # ---- required: lookups ask for a required resource; at most one wait; a wait only after a ResourceNotFound miss
        not_opt_args = z3.And(*[z3.Not(Val.b(a.t)) if a.ty.kind == "bool" else z3.BoolVal(False) for a in opt_args])
        shape_ok = True
        facts = []
        if not waits:
            shape_ok = len(calls) == 1
        else:
            shape_ok = (len(waits) == 1 and len(calls) >= 1 and len(rets) >= 1 and rets[0][1][0] == "spec_raise"
                        and calls[0][0] < waits[0][0] and all(i > waits[0][0] for i, _ in calls[1:]) and len(calls) <= 2)
            if shape_ok:
                e1 = rets[0][1][3]
                facts.append(("required:waits-only-after-ResourceNotFound", subcls(F.new.fld("__class__", Val.a(e1.t)), con("ResourceNotFound"))))
                # no suspension (and no foreign code) between the miss and the subscription
                between = tr[rets[0][0] + 1: waits[0][0]]
                facts.append(("required:no-suspension-between-the-miss-and-the-subscription",
                              z3.BoolVal(not any(e[0] in ("suspend", "yield", "opaque", "opaque-raise") for e in between))))
                w = waits[0][1][2]
                facts.append(("required:waits-on-the-backing-contexts-resource_added-signal", w["self"].t == ctx_sig(waits[0][1][3], F.eng.reg, Val.a(ctx))))
                facts.append(("required:waits-with-the-name-and-type-filter", w["filter"].t == F.eng.make_closure(F.old_st, None, GETRES + ".<lambda@0>").t))
                if normal:
                    facts.append(("required:looks-up-again-after-the-wait", z3.BoolVal(len(calls) == 2 and len(rets) == 2 and rets[1][1][0] == "spec_ret")))
        out.append(("required:lookup-then-on-a-miss-wait-then-look-up-again", z3.Implies(z3.Not(opt), z3.And(z3.BoolVal(bool(shape_ok)), not_opt_args))))
        out += [(n, z3.Implies(z3.Not(opt), f)) for n, f in facts]
        if normal:
            last = [e for _, e in rets if e[0] == "spec_ret"]
            out.append(("returns-the-result-of-the-last-delegated-lookup",
                        z3.BoolVal(bool(last)) if not last else (F.result.t == last[-1][3].t)))
        return out

    def local_ensures(self, F):
        return self._clauses(F, True)

    def local_raises(self, F):
        return self._clauses(F, False)


class CCWaitFilter(FnSpec):
    """C06: the filter of the wait: accepts exactly the events announcing the requested name and a type tuple containing the requested type"""
    qual = GETRES + ".<lambda@0>"
    properties = ("C06", "C05")
    param_types = {"event": INST("ResourceEvent")}
    cell_types = {"type": ANY, "name": TSTR}
    modifies = frozenset()
    may_raise = False

    def ensures(self, F):
        env = F.old_st.ghost["outer_env"]
        name = F.old.fld("cell:name", env)
        typ = F.old.fld("cell:type", env)
        ev = F.addr("event")
        tt = Val.a(F.old.fld("resource_types", ev))
        accepted = z3.And(F.old.fld("resource_name", ev) == name, tmem(F.old.l_items(tt) if False else z3.Select(F.old.h("t_item"), tt), F.old.t_len(tt), typ))
        return [("accepts-exactly-name-and-type-matches", F.eng.truth(F.new_st, F.result) == accepted),
                ("writes-nothing", F.all_same())]


class _CCAdd(FnSpec):
    """C14: name == 'default' while the component is in start() -> the component's default resource name; every other name, and every
    other phase, passes through; exactly one delegated registration on the backing context with all other arguments unchanged."""
    properties = ("C14",)
    modifies = "rely"
    may_raise = True
    target = None
    passthrough = ()

    def requires(self, F):
        return cc_requires(F)

    def _clauses(self, F):
        tr = F.new_st.trace
        c = F.addr("self")
        ctx = backing(F.old, c)
        calls = [e for e in tr if e[0] == "spec_call" and e[1] == self.target]
        others = [e for e in tr if e[0] in ("opaque", "opaque-raise") or (e[0] == "spec_call" and e[1] != self.target
                                                                           and not F.eng.reg.specs[e[1]].assumed)]
        writes = [e for e in tr if e[0] in ("fstore", "dstore", "append")]
        want = z3.If(z3.And(F.t("name") == sid("default"), F.old.fld("_component_state", c) == CS("starting")),
                     F.old.fld("_default_resource_name", c), F.t("name"))
        out = [("exactly-one-delegated-registration", z3.BoolVal(len(calls) == 1 and not others)),
               ("writes-nothing-itself", z3.BoolVal(not writes))]
        for e in calls[:1]:
            a = e[2]
            out.append(("registered-on-the-backing-context", a["self"].t == ctx))
            out.append(("default-name-remapped-only-while-starting", a["name"].t == want))
            out.append(("other-arguments-passed-through", z3.And(*[a[n].t == F.t(n) for n in self.passthrough])))
        return out

    def local_ensures(self, F):
        return self._clauses(F)

    def local_raises(self, F):
        return self._clauses(F)


class CCAddResource(_CCAdd):
    qual = "_component.ComponentContext.add_resource"
    target = "_context.Context.add_resource"
    param_types = {"value": ANY, "name": TSTR, "types": ANY, "description": ANY, "teardown_callback": ANY}
    passthrough = ("value", "types", "description", "teardown_callback")


class CCAddResourceFactory(_CCAdd):
    qual = "_component.ComponentContext.add_resource_factory"
    target = "_context.Context.add_resource_factory"
    param_types = {"factory_callback": ANY, "name": TSTR, "types": ANY, "description": ANY}
    passthrough = ("factory_callback", "types", "description")


def register(reg):
    for s in (CCGetResource, CCWaitFilter, CCAddResource, CCAddResourceFactory):
        reg.add(s)


# ============================================================================================ building the tree
CC_FIELDS = ("path", "_component", "_default_resource_name", "_child_component_contexts", "_component_state", "_coro", "_context")
str_contains = z3.Function("str_contains", Val, Val, B)


class CCInit(FnSpec):
    """ComponentContext.__init__: a Context (no explicit parent) carrying the component, its path, default resource name and child
    table as given, state `initialized`, delegating to the plain context behind the current context."""
    qual = "_component.ComponentContext.__init__"
    properties = ("C05", "C14", "C06")
    param_types = {"component": ANY, "path": TSTR, "default_resource_name": TSTR,
                   "child_component_contexts": DICT(TSTR, INST("ComponentContext"))}
    modifies = frozenset(set(__import__("contracts.c_context_lookup", fromlist=["ContextInit"]).ContextInit.modifies)
                         | {"fld:" + f for f in CC_FIELDS} | {"g:cc_init"})
    uses_invariants = ("I-td:teardown-lists-are-token-stacks", "I-stk:exit-stack-as-pushed-by-aenter")
    may_raise = True

    def requires(self, F):
        s = F.addr("self")
        cur = F.old.h("g:curctx")
        return [
            ("self-is-a-new-context-object", z3.And(Val.is_ref(F.t("self")), 0 <= s, s < F.old.alloc, z3.Not(is_ctx(F.old, s)))),
            ("current-context-is-an-initialised-context", z3.Or(cur == VNone, z3.And(Val.is_ref(cur), is_ctx(F.old, Val.a(cur)),
                                                                                     z3.Implies(is_cc(F.old, cur), z3.Select(F.old.g("g:cc_init"), Val.a(cur)))))),
        ]

    def ghost_exit(self, eng, st, kind):
        if kind == "return":
            s = Val.a(st.env["self"].t)
            st.heap["g:cc_init"] = z3.Store(st.heap["g:cc_init"], s, True)

    def ensures(self, F):
        s = F.addr("self")
        cur = F.old.h("g:curctx")
        x = z3.Const("x!cci", I)
        back = z3.If(is_cc(F.old, cur), F.old.fld("_context", Val.a(cur)), cur)
        out = [
            ("initialised-inactive", z3.And(is_ctx(F.new, s), z3.Select(F.new.g("g:cc_init"), s), state_of(F.new, s) == S_INACTIVE)),
            ("requires-a-current-context", cur != VNone),
            ("carries-what-it-was-given", z3.And(F.new.fld("path", s) == F.t("path"), F.new.fld("_component", s) == F.t("component"),
                                                 F.new.fld("_default_resource_name", s) == F.t("default_resource_name"),
                                                 F.new.fld("_child_component_contexts", s) == F.t("child_component_contexts"))),
            ("state-initialized-no-coroutine", z3.And(F.new.fld("_component_state", s) == CS("initialized"), F.new.fld("_coro", s) == VNone)),
            ("delegates-to-the-plain-context-behind-the-current-one", F.new.fld("_context", s) == back),
            ("only-self-marked", z3.ForAll([x], z3.Implies(x != s, F.same_at("g:cc_init", x)), patterns=[z3.Select(F.new.h("g:cc_init"), x)])),
            ("existing-containers-untouched", unchanged_on_old(F, ("d_has", "d_get", "d_len", "l_len", "l_item", "s_has", "s_len"))),
        ]
        for f in CC_FIELDS:
            out.append((f"only-self-written:{f}", z3.ForAll([x], z3.Implies(x != s, F.same_at("fld:" + f, x)), patterns=[z3.Select(F.new.h("fld:" + f), x)])))
        return out

    def raises(self, F):
        return [("raises-only-without-a-current-context", z3.And(F.old.h("g:curctx") == VNone, F.exc_is("NoCurrentContext")))]


class ResolveReference(FnSpec):
    """A-REF (assumed): resolve_reference('module:varname') imports the module and walks the attribute path; LookupError otherwise"""
    qual = "_utils.resolve_reference"
    assumed = "A-REF"
    param_types = {"ref": ANY}
    modifies = "rely"
    may_raise = True
    check_guarantee = False

    def requires(self, F):
        return []

    def raises(self, F):
        return [("only-LookupError-or-import-time-errors", z3.BoolVal(True))]


class PluginResolve(FnSpec):
    """C14: the three spellings of a component type: a non-string is returned as is (nothing else happens); 'module:varname' is
    resolved as a reference; any other string is an entry point name: cached value, else loaded once and cached, else LookupError."""
    qual = "_utils.PluginContainer.resolve"
    frame_rule = True
    properties = ("C14",)
    param_types = {"obj": ANY}
    modifies = "rely"
    may_raise = True

    def requires(self, F):
        return plugin_private(F.old, F.addr("self"))

    def pure_when(self, F):
        return z3.Not(isstr(F.t("obj")))

    def ensures(self, F):
        return [("non-string-returned-as-is", z3.Implies(z3.Not(isstr(F.t("obj"))), F.result.t == F.t("obj")))]

    def raises(self, F):
        return [("a-non-string-never-raises", isstr(F.t("obj")))]

    def _clauses(self, F, normal):
        tr = F.new_st.trace
        obj = F.t("obj")
        refs = [e for e in tr if e[0] == "spec_call" and e[1] == "_utils.resolve_reference"]
        loads = [e for e in tr if e[0] in ("opaque", "opaque-raise")]
        is_ref = z3.And(isstr(obj), str_contains(obj, sid(":")))
        out = [("non-string:nothing-called", z3.Implies(z3.Not(isstr(obj)), z3.BoolVal(not refs and not loads))),
               ("reference:resolved-as-reference-only", z3.Implies(is_ref, z3.BoolVal(len(refs) == 1 and not loads))),
               ("reference:passes-the-string", z3.And(*[e[2]["ref"].t == obj for e in refs])),
               ("entry-point:never-resolved-as-reference", z3.Implies(z3.And(isstr(obj), z3.Not(str_contains(obj, sid(":")))), z3.BoolVal(not refs))),
               ("entry-point:loaded-at-most-once", z3.BoolVal(len(loads) <= 1))]
        s = F.addr("self")
        cache = Val.a(F.old.fld("_resolved", s))
        eps = Val.a(F.old.fld("_entrypoints", s))
        if loads:
            out.append(("entry-point:loaded-only-when-not-cached", z3.And(z3.Not(F.old.d_has(cache, obj)), F.old.d_has(eps, obj))))
            out.append(("entry-point:loads-the-named-entry-point", z3.And(loads[0][1].t == F.old.d_get(eps, obj), z3.BoolVal(".load" in loads[0][4]))))
        if normal and not refs and not loads:
            out.append(("cached-or-unchanged-result", z3.Or(z3.Not(isstr(obj)), z3.And(F.old.d_has(cache, obj), F.result.t == F.old.d_get(cache, obj)))))
        return out

    def local_ensures(self, F):
        return self._clauses(F, True)

    def local_raises(self, F):
        tr = F.new_st.trace
        obj = F.t("obj")
        news = [e for e in tr if e[0] == "new_exc"]
        out = self._clauses(F, False)
        if news:
            s = F.addr("self")
            out.append(("LookupError-only-for-an-unknown-entry-point",
                        z3.And(z3.BoolVal(news[-1][1] == "LookupError"), isstr(obj),
                               z3.Not(F.old.d_has(Val.a(F.old.fld("_resolved", s)), obj)))))
        return out


def isstr(v):
    from pyvc.smt import is_str_u
    return z3.And(Val.is_str(v), is_str_u(v))


def plugin_private(H, s):
    """A-PLUG: the container's cache and entry point table are its own dictionaries (created by its __init__, never handed out)"""
    r, e = H.fld("_resolved", s), H.fld("_entrypoints", s)
    return [("plugin-cache-is-private", z3.And(subcls(H.fld("__class__", s), con("PluginContainer")), Val.is_ref(r), Val.is_ref(e), 0 <= Val.a(r), Val.a(r) < H.alloc, 0 <= Val.a(e), Val.a(e) < H.alloc,
                                               z3.Select(H.g("g:owner"), Val.a(r)) == con("own:nobody"),
                                               z3.Select(H.g("g:owner"), Val.a(e)) == con("own:nobody")))]


def attr_bm(v, meth):
    from pyvc.smt import METHS
    return Val.bm(v, z3.IntVal(METHS.id(meth)))


def child_path_of(path, alias):
    from pyvc.smt import fstr_fn
    return z3.If(path != sid(""), Val.str(fstr_fn("{}.{}", 2)(path, alias)), alias)


def split_part(s_, sep, mx, i):
    from pyvc.smt import split_item
    return split_item(s_, sep, mx, z3.IntVal(i))


INIT = "_component._init_component"


class InitComponent(FnSpec):
    """C14/C05/C07: _init_component(path, config, default_resource_name): resolves the type, constructs the component from the remaining
    options (a constructor Exception becomes ComponentStartError('creating', path, class) from it), merges the hard-coded child
    configuration with the external one (external wins), and for every child of the merged configuration calls itself exactly once with
    (child path, a private copy of the child's options, the child's default resource name).  It writes only `config` (its own private
    argument) and dictionaries it allocated itself."""
    qual = INIT
    properties = ("C14", "C05", "C07")
    param_types = {"path": TSTR, "config": DICT(TSTR, ANY), "default_resource_name": TSTR}
    ret_type = INST("ComponentContext")
    modifies = "rely"
    may_raise = True
    frame_rule = True
    # A-NEW: calling a class that passed `issubclass(cls, Component)` yields a Component instance (no metaclass/__new__ tricks)
    # (the constructor call is the only opaque call of a plain name; `.split` on a non-string value is the other opaque call)
    opaque_result_types = {(lambda anchor: anchor.startswith("call(") and not anchor.startswith("call(.")): (INST("Component"), "A-NEW")}

    def requires(self, F):
        cur = F.old.h("g:curctx")
        cfg = F.addr("config")
        return [("called-inside-an-initialised-context", z3.And(Val.is_ref(cur), is_ctx(F.old, Val.a(cur)),
                                                                z3.Implies(is_cc(F.old, cur), z3.Select(F.old.g("g:cc_init"), Val.a(cur))))),
                ("config-is-a-private-dict", z3.And(Val.is_ref(F.t("config")), z3.Select(F.old.g("g:owner"), cfg) == con("own:nobody")))] \
            + plugin_private(F.old, Val.a(F.eng.reg.global_ref("_component.component_types")))

    def ensures(self, F):
        r = Val.a(F.result.t)
        return [("returns-a-fresh-initialised-component-context", z3.And(F.fresh(F.result.t), is_ctx(F.new, r), z3.Select(F.new.g("g:cc_init"), r),
                                                                         state_of(F.new, r) == S_INACTIVE,
                                                                         F.new.fld("path", r) == F.t("path"),
                                                                         F.new.fld("_default_resource_name", r) == F.t("default_resource_name")))]

    def raises(self, F):
        return []

    def init_ghost(self, eng, st):
        st.ghost["alloc0"] = st.heap["alloc"]
        st.ghost["cfg"] = Val.a(st.env["config"].t)
        # the external child configuration: config["components"] as it is at entry (an absent key gives a fresh empty dict)
        c = st.ghost["cfg"]
        st.ghost["popped_components"] = st.d_get(c, sid("components"))
        st.ghost["has_components"] = st.d_has(c, sid("components"))

    def on_loop_body(self, eng, st, k, it):
        """ghost: the child's entry in the merged configuration as it is when its iteration begins"""
        H = HeapView(dict(st.heap))
        orig = it["val"].t
        st.ghost["child_cfg_orig"] = orig
        st.ghost["child_cfg_has"] = lambda key: H.d_has(Val.a(orig), key)
        st.ghost["child_cfg_get"] = lambda key: H.d_get(Val.a(orig), key)

    # ---- per-child obligations: checked where the recursive call is made (inside the loop body, i.e. for every iteration)
    def on_spec_call(self, eng, st, qual, args, anchor):
        fn = eng.fi.node
        if qual == "_utils.merge_config":
            comp = [e for e in st.trace if e[0] in ("opaque",)]
            pops = [e for e in st.trace if e[0] == "dpop"]
            ok = z3.BoolVal(False)
            if comp and pops:
                component = comp[-1][3].t
                ov = args["overrides"].t
                ok = z3.And(args["original"].t == st.fld("_child_components", Val.a(component)),
                            z3.If(st.ghost["has_components"], ov == st.ghost["popped_components"],
                                  z3.And(Val.is_ref(ov), Val.a(ov) >= st.ghost["alloc0"], st.d_len(Val.a(ov)) == 0)))
            eng.oblige(st, "post", "merge:hard-coded-children-first-external-configuration-overrides", ok, anchor)
        if qual == INIT:
            names = roles.loop_target_names(fn, 0)
            alias = st.env[names[0]].t
            orig = st.ghost.get("child_cfg_orig")
            path = st.env["path"].t
            cfg = Val.a(args["config"].t)
            eng.oblige(st, "post", "child:path-is-parent-path-dot-alias", args["path"].t == child_path_of(path, alias), anchor)
            eng.oblige(st, "post", "child:gets-a-private-copy-of-its-configuration",
                       z3.And(Val.is_ref(args["config"].t), cfg >= st.ghost["alloc0"]), anchor)
            from pyvc.smt import split_item
            slash = sid("/")
            want_name = z3.If(str_contains(alias, slash), split_item(alias, slash, Val.int(z3.IntVal(1)), z3.IntVal(1)), sid("default"))
            eng.oblige(st, "post", "child:default-resource-name-from-its-own-alias-only",
                       z3.Implies(isstr(alias), args["default_resource_name"].t == want_name), anchor)
            if orig is not None:
                o = Val.a(orig)
                given = z3.And(orig != VNone, st.ghost["child_cfg_has"](sid("type")))
                t0 = z3.If(given, st.ghost["child_cfg_get"](sid("type")), alias)
                want_type = z3.If(z3.And(isstr(t0), str_contains(t0, slash)),
                                  split_item(t0, slash, Val.int(z3.IntVal(-1)), z3.IntVal(0)), t0)
                k = z3.Const("k!ic", Val)
                eng.oblige(st, "post", "child:type-defaults-to-the-alias-and-drops-the-/name-part",
                           z3.And(st.d_has(cfg, sid("type")), st.d_get(cfg, sid("type")) == want_type), anchor)
                eng.oblige(st, "post", "child:other-options-are-those-of-the-merged-configuration",
                           z3.ForAll([k], z3.Implies(k != sid("type"),
                                                     z3.And(st.d_has(cfg, k) == z3.If(orig == VNone, z3.BoolVal(False), st.ghost["child_cfg_has"](k)),
                                                            z3.Implies(st.d_has(cfg, k), st.d_get(cfg, k) == st.ghost["child_cfg_get"](k))))), anchor)

    def on_new_exception(self, eng, st, cls, a, args):
        if cls != "ComponentStartError":
            return
        res = [e for e in st.trace if e[0] == "spec_ret" and e[1] == "_utils.PluginContainer.resolve"]
        ok = z3.BoolVal(False)
        if res and len(args) == 3:
            ok = z3.And(args[0].t == sid("creating"), args[1].t == st.env["path"].t, args[2].t == res[-1][3].t)
        eng.oblige(st, "post", "creating-error-names-phase-path-and-the-resolved-class", ok, "ComponentStartError")
        h = st.exc_reg
        raised = [e for e in st.trace if e[0] == "opaque-raise"]
        eng.oblige(st, "post", "creating-error-only-for-an-Exception-of-the-constructor",
                   z3.And(z3.BoolVal(bool(raised)), h.t != VNone, subcls(st.fld("__class__", Val.a(h.t)), con("Exception")),
                          *( [h.t == raised[-1][3].t] if raised else [])) if h.ty.kind != "none" else z3.BoolVal(False),
                   "ComponentStartError")

    def _frame(self, F):
        d = z3.Const("d!ic", I)
        g = F.new_st.ghost
        return [("writes-only-its-own-config-argument-and-dictionaries-it-allocated",
                 z3.ForAll([d], z3.Implies(z3.Select(F.new.h("w_dict"), d), z3.Or(d == g["cfg"], d >= g["alloc0"])),
                           patterns=[z3.Select(F.new.h("w_dict"), d)]))]

    def local_ensures(self, F):
        tr = F.new_st.trace
        out = self._frame(F)
        ctor = [e for e in tr if e[0] == "opaque"]
        res = [e for e in tr if e[0] == "spec_ret" and e[1] == "_utils.PluginContainer.resolve"]
        merges = [e for e in tr if e[0] == "spec_call" and e[1] == "_utils.merge_config"]
        news = [e for e in tr if e[0] == "spec_call" and e[1] == "_component.ComponentContext.__init__"]
        out.append(("type-resolved-once-component-constructed-once-children-merged-once",
                    z3.BoolVal(len(res) == 1 and len(ctor) == 1 and len(merges) == 1 and len(news) == 1)))
        if len(res) == 1 and len(ctor) == 1 and len(news) == 1:
            out.append(("constructs-the-resolved-class", ctor[0][1].t == res[0][3].t))
            a = news[0][2]
            out.append(("context-carries-the-component-path-name-and-child-table",
                        z3.And(a["component"].t == ctor[0][3].t, a["path"].t == F.t("path"),
                               a["default_resource_name"].t == F.t("default_resource_name"),
                               a["child_component_contexts"].t == F.new_st.env[roles.assigned_dict_name(F.eng.fi.node)].t
                               if roles.assigned_dict_name(F.eng.fi.node) in F.new_st.env else z3.BoolVal(False))))
            out.append(("returns-the-new-context", F.result.t == news[0][2]["self"].t))
        return out

    def local_raises(self, F):
        return self._frame(F)

    def _loop0(self, L):
        """for alias, child_config in child_components_config.items(): ... child_contexts[child_path] = _init_component(...)"""
        E, C = L.entry, L.cur
        g = L.cur_st.ghost
        d = z3.Const("d!il", I)
        k = z3.Const("k!il", Val)
        cd = Val.a(L.v(roles.assigned_dict_name(L.eng.fi.node)).t)
        return [
            ("writes-only-own-config-and-fresh-dicts", z3.ForAll([d], z3.Implies(z3.Select(C.h("w_dict"), d), z3.Or(d == g["cfg"], d >= g["alloc0"])),
                                                                 patterns=[z3.Select(C.h("w_dict"), d)])),
            ("child-table-is-private-and-holds-initialised-component-contexts",
             z3.And(cd >= g["alloc0"], cd < C.alloc,
                    z3.ForAll([k], z3.Implies(C.d_has(cd, k), z3.And(Val.is_ref(C.d_get(cd, k)), is_ctx(C, Val.a(C.d_get(cd, k))),
                                                                     z3.Select(C.g("g:cc_init"), Val.a(C.d_get(cd, k))))),
                              patterns=[C.d_get(cd, k)]))),
            ("child-table-owned-by-nobody", z3.Select(C.g("g:owner"), cd) == con("own:nobody")),
            ("current-context-unchanged", C.h("g:curctx") == E.h("g:curctx")),
            ("plugin-cache-still-private", z3.And(*[f for _, f in plugin_private(C, Val.a(L.eng.reg.global_ref("_component.component_types")))])),
            ("alloc-monotone", C.alloc >= E.alloc),
        ]

    def __init__(self):
        self.loops = {0: self._loop0}


def register2(reg):
    from pyvc import roles as _r

    def g_ccinit(old, new):
        x = z3.Const("x!gcc", I)
        return z3.ForAll([x], z3.Implies(z3.Select(old.g("g:cc_init"), x), z3.Select(new.g("g:cc_init"), x)), patterns=[z3.Select(new.g("g:cc_init"), x)])
    reg.guarantees.append(("G-ccinit:initialised-component-contexts-stay-so", g_ccinit, ("g:cc_init",)))
    reg.schema["PluginContainer"] = {"_entrypoints": DICT(TSTR, ANY), "_resolved": DICT(TSTR, ANY), "base_class": ANY, "namespace": TSTR}
    reg.global_types["_component.component_types"] = INST("PluginContainer")
    for f in ("_entrypoints", "_resolved", "base_class", "namespace"):
        reg.immutable_fields.add(("PluginContainer", f))
    reg.assumptions_text["A-NEW"] = ("calling a class object that passed isclass/issubclass(cls, Component) returns an instance of it whose "
                                     "_child_components is None or the dict written by add_component (no metaclass __call__/__new__ tricks)")
    reg.assumptions_text["A-REF"] = "resolve_reference (import_module + getattr walk) returns the referenced object or raises; string splitting not modelled"
    for s in (CCInit, ResolveReference, PluginResolve, InitComponent):
        reg.add(s)


START = "_component.start_component"
START_ = "_component._start_component"


class StartComponentPublic(FnSpec):
    """C05/C07/C14: start_component(component_class, config, timeout): needs a current context (RuntimeError) and a mapping or None
    (TypeError) before anything else happens; builds the whole tree (_init_component, once, on a private copy {'type': class, **config})
    strictly before any component is started (_start_component, once, on that tree's root); with a timeout the watchdog is spawned first and
    cancelled after a successful start; returns the root component.  The caller's config is never written."""
    qual = START
    frame_rule = True
    uses_invariants = ("I-stk:exit-stack-as-pushed-by-aenter",)
    properties = ("C05", "C07", "C14")
    param_types = {"component_class": ANY, "config": ANY, "timeout": ANY}
    modifies = "rely"
    suspends = True
    may_raise = True

    def requires(self, F):
        return plugin_private(F.old, Val.a(F.eng.reg.global_ref("_component.component_types")))

    def init_ghost(self, eng, st):
        st.ghost["alloc0"] = st.heap["alloc"]

    def _clauses(self, F, normal):
        tr = F.new_st.trace
        g = F.new_st.ghost
        idx = lambda pred: [i for i, e in enumerate(tr) if pred(e)]
        inits = idx(lambda e: e[0] == "spec_call" and e[1] == INIT)
        init_rets = idx(lambda e: e[0] == "spec_ret" and e[1] == INIT)
        starts = idx(lambda e: e[0] == "spec_call" and e[1] == START_)
        start_rets = idx(lambda e: e[0] == "spec_ret" and e[1] == START_)
        spawns = idx(lambda e: e[0] == "spawn")
        cancels = idx(lambda e: e[0] == "cs_cancel")
        opaque = idx(lambda e: e[0] in ("opaque", "opaque-raise"))
        d = z3.Const("d!sc", I)
        cur0 = F.old.h("g:curctx")
        cfg = F.t("config")
        bad_cfg = z3.And(cfg != VNone, z3.Not(is_mapping_u(cfg)))
        out = [
            ("calls-no-foreign-code-itself", z3.BoolVal(not opaque)),
            ("never-writes-the-callers-config", z3.ForAll([d], z3.Implies(z3.Select(F.new.h("w_dict"), d), d >= g["alloc0"]),
                                                          patterns=[z3.Select(F.new.h("w_dict"), d)])),
            ("without-a-current-context-or-with-a-bad-config-nothing-is-built",
             z3.Implies(z3.Or(cur0 == VNone, bad_cfg), z3.BoolVal(not inits and not starts and not spawns))),
            ("tree-built-at-most-once-and-started-at-most-once-after-it-was-built",
             z3.BoolVal(len(inits) <= 1 and len(starts) <= 1 and (not starts or (len(init_rets) == 1 and init_rets[0] < starts[0])))),
        ]
        if inits:
            a = tr[inits[0]][2]
            H = tr[inits[0]][3]
            c = Val.a(a["config"].t)
            k = z3.Const("k!sc", Val)
            src_has = lambda key: z3.If(cfg == VNone, z3.BoolVal(False), F.old.d_has(Val.a(cfg), key))
            out.append(("root:path-empty-default-name", z3.And(a["path"].t == sid(""), a["default_resource_name"].t == sid("default"))))
            out.append(("root:private-copy-with-the-type-and-the-callers-options",
                        z3.And(Val.is_ref(a["config"].t), c >= g["alloc0"],
                               H.d_has(c, sid("type")),
                               z3.If(src_has(sid("type")), H.d_get(c, sid("type")) == F.old.d_get(Val.a(cfg), sid("type")),
                                     H.d_get(c, sid("type")) == F.t("component_class")),
                               z3.ForAll([k], z3.Implies(k != sid("type"), z3.And(H.d_has(c, k) == src_has(k),
                                                                                   z3.Implies(H.d_has(c, k), H.d_get(c, k) == F.old.d_get(Val.a(cfg), k)))),
                                         patterns=[H.d_has(c, k)]))))
        if starts and init_rets:
            root = tr[init_rets[0]][3].t
            out.append(("starts-the-root-of-the-tree-it-built", tr[starts[0]][2]["context"].t == root))
            tmo = F.eng.truth(F.new_st, F["timeout"])
            before = [i for i in spawns if i < starts[0]]
            out.append(("watchdog-spawned-before-the-start-iff-a-timeout-is-given",
                        z3.If(tmo, z3.BoolVal(len(before) == 1 and len(spawns) == 1), z3.BoolVal(not spawns))))
            for i in before[:1]:
                e = tr[i]
                out.append(("watchdog-watches-this-tree-with-this-timeout",
                            z3.And(z3.BoolVal(len(e[2]) == 3), *([e[2][0].t == con("func:_component._watch_component_tree_startup"),
                                                                  e[2][1].t == root, e[2][2].t == F.t("timeout")] if len(e[2]) == 3 else []))))
            if normal:
                out.append(("returns-the-root-component", F.result.t == F.new.fld("_component", Val.a(root))))
                out.append(("watchdog-cancelled-after-a-successful-start-iff-spawned",
                            z3.BoolVal((len(cancels) == 1 and bool(start_rets) and cancels[0] > start_rets[0]) if spawns else not cancels)))
        if normal:
            out.append(("success-means-built-and-started", z3.BoolVal(len(init_rets) == 1 and len(start_rets) == 1)))
        return out

    def local_ensures(self, F):
        return self._clauses(F, True)

    def local_raises(self, F):
        tr = F.new_st.trace
        out = self._clauses(F, False)
        news = [e for e in tr if e[0] == "new_exc"]
        cur0 = F.old.h("g:curctx")
        cfg = F.t("config")
        if news and not [e for e in tr if e[0] == "spec_call" and e[1] == INIT]:
            out.append(("own-errors:RuntimeError-without-context-TypeError-for-a-bad-config",
                        z3.If(cur0 == VNone, z3.BoolVal(news[-1][1] == "RuntimeError"),
                              z3.And(z3.BoolVal(news[-1][1] == "TypeError"), cfg != VNone, z3.Not(is_mapping_u(cfg))))))
        return out


def register3(reg):
    reg.add(StartComponentPublic)


class AddComponent(FnSpec):
    """C14: Component.add_component(alias, type=None, **config): refused once start_component() has taken the component (RuntimeError), for
    a non-string or empty alias (TypeError) and for an alias already present (ValueError) - each before anything is written; otherwise stores
    under the alias a new dict {'type': type or alias, **config} in the component's own child table (created on first use) and touches no
    other entry."""
    qual = "_component.Component.add_component"
    properties = ("C14",)
    param_types = {"alias": ANY, "type": ANY, "config": DICT(TSTR, ANY)}
    modifies = frozenset({"d_has", "d_get", "d_len", "fld:_child_components", "g:owner"})
    may_raise = True
    check_guarantee = False

    def requires(self, F):
        s = F.addr("self")
        cc = F.old.fld("_child_components", s)
        return [("child-table-none-or-own-dict", z3.Or(cc == VNone, z3.And(Val.is_ref(cc), is_dict_u(cc), 0 <= Val.a(cc), Val.a(cc) < F.old.alloc)))]

    def _bad(self, F):
        s = F.addr("self")
        alias = F.t("alias")
        cc = F.old.fld("_child_components", s)
        started = F.eng.truth(F.old_st, SV(F.old.fld("_component_started", s), TBOOL))
        bad_alias = z3.Or(z3.Not(isstr(alias)), alias == sid(""))
        dup = z3.And(cc != VNone, F.old.d_has(Val.a(cc), alias))
        return started, bad_alias, dup

    def ensures(self, F):
        s = F.addr("self")
        alias, ty = F.t("alias"), F.t("type")
        started, bad_alias, dup = self._bad(F)
        cc_new = F.new.fld("_child_components", s)
        t = Val.a(cc_new)
        e = F.new.d_get(t, alias)
        k = z3.Const("k!ac", Val)
        cfg = F.addr("config")
        old_cc = F.old.fld("_child_components", s)
        truthy_ty = z3.And(ty != VNone, ty != sid(""), z3.Implies(Val.is_bool(ty), Val.b(ty)))
        return [
            ("accepted-only-when-allowed", z3.And(z3.Not(started), z3.Not(bad_alias), z3.Not(dup))),
            ("child-table-kept-or-created", z3.If(old_cc == VNone, F.fresh(cc_new), cc_new == old_cc)),
            ("stored-under-the-alias-a-new-dict", z3.And(F.new.d_has(t, alias), F.fresh(e))),
            ("entry-has-type-or-alias-and-the-options",
             z3.And(F.new.d_has(Val.a(e), sid("type")),
                    z3.ForAll([k], z3.Implies(k != sid("type"), z3.And(F.new.d_has(Val.a(e), k) == F.old.d_has(cfg, k),
                                                                       z3.Implies(F.old.d_has(cfg, k), F.new.d_get(Val.a(e), k) == F.old.d_get(cfg, k)))),
                              patterns=[F.new.d_has(Val.a(e), k)]))),
            ("other-aliases-untouched", z3.ForAll([k], z3.Implies(z3.And(k != alias, old_cc != VNone),
                                                                  z3.And(F.new.d_has(t, k) == F.old.d_has(Val.a(old_cc), k),
                                                                         F.new.d_get(t, k) == F.old.d_get(Val.a(old_cc), k))),
                                                  patterns=[F.new.d_has(t, k)])),
        ]

    def local_ensures(self, F):
        s = F.addr("self")
        alias, ty = F.t("alias"), F.t("type")
        e = F.new.d_get(Val.a(F.new.fld("_child_components", s)), alias)
        cfg = F.addr("config")
        # `type or alias`: pyvc's truth of an ANY value
        tv = F.new.d_get(Val.a(e), sid("type"))
        return [("type-defaults-to-the-alias", z3.Or(z3.And(F.old.d_has(cfg, sid("type")), tv == F.old.d_get(cfg, sid("type"))), tv == ty, tv == alias)),
                ("explicit-type-kept", z3.Implies(z3.And(z3.Not(F.old.d_has(cfg, sid("type"))), isstr(ty), ty != sid("")), tv == ty)),
                ("missing-type-is-the-alias", z3.Implies(z3.And(z3.Not(F.old.d_has(cfg, sid("type"))), ty == VNone), tv == alias))]

    def raises(self, F):
        started, bad_alias, dup = self._bad(F)
        d = z3.Const("d!ac", I)
        return [("refused-only-for-a-documented-reason", z3.Or(started, bad_alias, dup)),
                ("error-class", z3.If(started, F.exc_is("RuntimeError"), z3.If(bad_alias, F.exc_is("TypeError"), F.exc_is("ValueError"))))]

    def local_raises(self, F):
        s = F.addr("self")
        return [("nothing-written-when-refused", z3.And(F.new.h("w_dict") == z3.K(I, z3.BoolVal(False)),
                                                       F.new.fld("_child_components", s) == F.old.fld("_child_components", s)))]


def register4(reg):
    reg.add(AddComponent)


WATCH = "_component._watch_component_tree_startup"


class _Summaries(FnSpec):
    """A-DIAG: the two nested report builders of the startup watchdog only read the component tree and format strings"""
    assumed = "A-DIAG"
    modifies = frozenset()
    may_raise = False
    ret_type = LIST(TSTR)
    check_guarantee = False
    param_types = {"subcontext": INST("ComponentContext")}

    def requires(self, F):
        return []

    def ensures(self, F):
        return [("fresh-list", F.fresh(F.result.t))]


class StatusSummaries(_Summaries):
    qual = WATCH + ".create_status_summaries"


class StackSummaries(_Summaries):
    qual = WATCH + ".create_stack_summaries"


class WatchStartup(FnSpec):
    """C07: the startup watchdog sleeps exactly once for the given timeout and then - whatever the report looks like - raises TimeoutError;
    it never returns normally and writes nothing but its own report lists."""
    qual = WATCH
    properties = ("C07",)
    param_types = {"context": INST("ComponentContext"), "timeout": ANY}
    modifies = "rely"
    suspends = True
    may_raise = True
    frame_rule = True

    def requires(self, F):
        return []

    def local_ensures(self, F):
        return [("never-returns-normally", z3.BoolVal(False))]

    def local_raises(self, F):
        tr = F.new_st.trace
        sleeps = [e for e in tr if e[0] in ("opaque", "opaque-raise") and "sleep" in str(e[4])]
        news = [e for e in tr if e[0] == "new_exc"]
        out = [("sleeps-exactly-once-for-the-given-timeout",
                z3.And(z3.BoolVal(len(sleeps) == 1 and len(sleeps[0][2]) == 1), *([sleeps[0][2][0].t == F.t("timeout")] if len(sleeps) == 1 and len(sleeps[0][2]) == 1 else [])))]
        if news:
            out.append(("raises-TimeoutError-only-after-the-sleep-returned", z3.BoolVal(news[-1][1] == "TimeoutError" and len(sleeps) == 1 and sleeps[0][0] == "opaque")))
        else:
            out.append(("otherwise-only-the-sleep-itself-raised", z3.BoolVal(len(sleeps) == 1 and sleeps[0][0] == "opaque-raise")))
        return out


def register5(reg):
    for s in (StatusSummaries, StackSummaries, WatchStartup):
        reg.add(s)


def _delegate(qual_, target_, params, awaited_, props=("C05",), opt_forward=False, returns_result=True):
    """C05 (ownership): a ComponentContext method that only forwards to the plain context behind it, with the same arguments, and returns
    (or raises) what that call returns (raises) - so that whatever a component registers belongs to the surrounding context"""
    class D(FnSpec):
        qual = qual_
        properties = props
        modifies = "rely"
        suspends = awaited_
        may_raise = True
        param_types = {p: ANY for p in params}

        def requires(self, F):
            return cc_requires(F)

        def _clauses(self, F, normal):
            tr = F.new_st.trace
            c = F.addr("self")
            ctx = backing(F.old, c)
            calls = [e for e in tr if e[0] == "spec_call" and e[1] == target_]
            rets = [e for e in tr if e[0] == "spec_ret" and e[1] == target_]
            others = [e for e in tr if e[0] in ("opaque", "opaque-raise", "spawn", "fstore", "dstore") or
                      (e[0] == "spec_call" and e[1] != target_ and not F.eng.reg.specs[e[1]].assumed)]
            out = [("forwards-exactly-once-and-does-nothing-else", z3.BoolVal(len(calls) == 1 and not others))]
            for e in calls[:1]:
                a = e[2]
                out.append(("forwards-to-the-backing-context-with-the-same-arguments",
                            z3.And(a["self"].t == ctx, *[a[p].t == F.t(p) for p in params if p in a and not (opt_forward and p == "optional")])))
                if opt_forward:
                    out.append(("optional-flag-forwarded", F.eng.truth(F.new_st, a["optional"]) == F.eng.truth(F.new_st, F["optional"])))
            if normal and returns_result:
                out.append(("returns-its-result", z3.BoolVal(len(rets) == 1) if len(rets) != 1 else F.result.t == rets[0][3].t))
            return out

        def local_ensures(self, F):
            return self._clauses(F, True)

        def local_raises(self, F):
            return self._clauses(F, False)
    D.__name__ = "Delegate_" + qual_.rsplit(".", 1)[-1]
    return D


DELEGATES = [
    _delegate("_component.ComponentContext.get_resource_nowait", "_context.Context.get_resource_nowait", ("type", "name", "optional"), False,
              props=("C05", "C06"), opt_forward=True),
    _delegate("_component.ComponentContext.get_resources", "_context.Context.get_resources", ("type",), False),
    _delegate("_component.ComponentContext.add_teardown_callback", "_context.Context.add_teardown_callback", ("callback", "pass_exception"), False,
              props=("C05", "C01"), returns_result=False),
    _delegate("_component.ComponentContext.start_service_task", "_context.Context.start_service_task", ("func", "name", "teardown_action"), True,
              props=("C05", "C08")),
    _delegate("_component.ComponentContext.start_background_task_factory", "_context.Context.start_background_task_factory", ("exception_handler",), True,
              props=("C05", "C09")),
]


def register6(reg):
    for d in DELEGATES:
        reg.add(d)
