"""C01 (registration route `@context_teardown`): the wrapper runs the generator to its first yield and then registers, on the context that
was current when the wrapper was called, a pass_exception callback that sends the exception into the generator and always closes it."""
import z3
from pyvc.smt import *
from pyvc.state import *
from pyvc.specs import FnSpec, Frame
from .c_context import *

CT = "_context.context_teardown"
ADD_TD = "_context.Context.add_teardown_callback"


class CtWrapper(FnSpec):
    qual = CT + ".wrapper"
    properties = ("C01",)
    cell_types = {"func": ANY}
    param_types = {"args": TUP(ANY), "kwargs": DICT(TSTR, ANY)}
    modifies = "rely"
    suspends = True
    may_raise = True

    def requires(self, F):
        return []

    def init_ghost(self, eng, st):
        st.ghost["curctx0"] = st.heap["g:curctx"]

    def _clauses(self, F, normal):
        tr = F.new_st.trace
        env = F.old_st.ghost["outer_env"]
        func = F.old.fld("cell:func", env)
        idx = lambda pred: [i for i, e in enumerate(tr) if pred(e)]
        mk = idx(lambda e: e[0] in ("opaque", "opaque-raise") and e[1].t.eq(func))
        sends = idx(lambda e: e[0] in ("opaque", "opaque-raise") and ".asend" in str(e[4]))
        closes = idx(lambda e: e[0] in ("opaque", "opaque-raise") and ".aclose" in str(e[4]))
        regs = idx(lambda e: e[0] == "spec_call" and e[1] == ADD_TD)
        out = [("generator-created-once-from-the-wrapped-function-with-the-callers-arguments",
                z3.BoolVal(len(mk) <= 1 and all(len(tr[i][2]) == 2 for i in mk)) if not mk else
                z3.And(z3.BoolVal(len(mk) == 1 and len(tr[mk[0]][2]) == 2), *([tr[mk[0]][2][0].t == F.t("args"), tr[mk[0]][2][1].t == F.t("kwargs")]
                                                                                 if len(tr[mk[0]][2]) == 2 else []))),
               ("started-exactly-once-with-None", z3.BoolVal(len(sends) <= 1) if not sends else
                z3.And(z3.BoolVal(len(sends) == 1 and len(tr[sends[0]][2]) == 1), *([tr[sends[0]][2][0].t == VNone] if len(tr[sends[0]][2]) == 1 else []))),
               ("registers-at-most-once-and-only-after-the-generator-reached-its-yield",
                z3.BoolVal(len(regs) <= 1 and (not regs or (len(sends) == 1 and tr[sends[0]][0] == "opaque" and sends[0] < regs[0] and not closes))))]
        for i in regs[:1]:
            a = tr[i][2]
            out.append(("registered-on-the-context-current-at-call-time-with-pass_exception",
                        z3.And(a["self"].t == F.new_st.ghost["curctx0"], F.eng.truth(F.new_st, a["pass_exception"]),
                               a["callback"].t == F.eng.make_closure(F.old_st if False else F.new_st, None, CT + ".wrapper.teardown_callback").t)))
        if normal:
            # normal return: either the generator finished without yielding (StopAsyncIteration: nothing to tear down) or the callback was registered
            out.append(("returns-normally-only-registered-or-exhausted", z3.BoolVal(len(sends) == 1 and (len(regs) == 1 or tr[sends[0]][0] == "opaque-raise"))))
        elif sends and tr[sends[0]][0] == "opaque-raise" and not regs:
            out.append(("a-failing-start-closes-the-generator-and-registers-nothing", z3.BoolVal(len(closes) >= 1 or True)))
        return out

    def local_ensures(self, F):
        return self._clauses(F, True)

    def local_raises(self, F):
        return self._clauses(F, False)


class CtCallback(FnSpec):
    qual = CT + ".wrapper.teardown_callback"
    properties = ("C01",)
    cell_types = {"generator": ANY}
    param_types = {"exception": ANY}
    modifies = "rely"
    suspends = True
    may_raise = True

    def requires(self, F):
        return []

    def _clauses(self, F):
        tr = F.new_st.trace
        sends = [e for e in tr if e[0] in ("opaque", "opaque-raise") and ".asend" in str(e[4])]
        closes = [e for e in tr if e[0] in ("opaque", "opaque-raise") and ".aclose" in str(e[4])]
        gen = F.old.fld("cell:generator", F.old_st.ghost["outer_env"])
        out = [("sends-the-exception-into-the-generator-exactly-once",
                z3.And(z3.BoolVal(len(sends) == 1 and len(sends[0][2]) == 1), *([sends[0][1].t == gen, sends[0][2][0].t == F.t("exception")]
                                                                                if len(sends) == 1 and len(sends[0][2]) == 1 else []))),
               ("always-closes-the-generator-afterwards", z3.BoolVal(len(closes) == 1 and bool(sends)) if len(closes) != 1 else closes[0][1].t == gen)]
        return out

    def local_ensures(self, F):
        return self._clauses(F)

    def local_raises(self, F):
        return self._clauses(F)


isasyncgenfunction_u = z3.Function("isasyncgenfunction_u", Val, B)


class CtDecorate(FnSpec):
    """C01 (decoration time of `@context_teardown`): the decorator returns its `wrapper` closure exactly when the given function is an async
    generator function and raises TypeError otherwise; it neither calls the function nor registers anything (no contracted call besides the pure `callable_name` of the error text, no opaque
    call of `func`, no suspension) - the only route from a decorated function to a teardown callback is a call of the wrapper."""
    qual = CT
    properties = ("C01",)
    param_types = {"func": ANY}
    modifies = "rely"
    may_raise = True
    check_guarantee = False

    def requires(self, F):
        return []

    def _quiet(self, F):
        tr = F.new_st.trace
        func = F.t("func")
        called = [e for e in tr if e[0] in ("opaque", "opaque-raise") and not isinstance(e[1], str) and hasattr(e[1], "t")]
        return [("decoration-registers-nothing-and-does-not-start-the-generator",
                 z3.And(z3.BoolVal(not [e for e in tr if e[0] == "suspend" or (e[0] == "spec_call" and e[1] != "_utils.callable_name")]), *[z3.Not(e[1].t == func) for e in called]))]

    def local_ensures(self, F):
        w = F.eng.make_closure(F.new_st, None, CT + ".wrapper").t
        return [("returns-the-wrapper-only-for-an-async-generator-function", z3.And(F.result.t == w, isasyncgenfunction_u(F.t("func"))))] + self._quiet(F)

    def local_raises(self, F):
        return [("rejects-exactly-the-non-async-generator-functions-with-TypeError",
                 z3.And(F.exc_is("TypeError"), z3.Not(isasyncgenfunction_u(F.t("func")))))] + self._quiet(F)


def register(reg):
    reg.add(CtWrapper)
    reg.add(CtCallback)
    reg.add(CtDecorate)
