"""C15: _runner.py - exit status of an application run and root-context teardown on every ending."""
import z3
from pyvc.smt import *
from pyvc.state import *
from pyvc.specs import FnSpec, Frame
from .c_context import *
from .c_component_ctx import plugin_private, START

RUN = "_runner._run_application_async"
CTX_ENTER, CTX_EXIT = "_context.Context.__aenter__", "_context.Context.__aexit__"
CTX_SST = "_context.Context.start_service_task"
MOD_SST = "_context.start_service_task"


def is_int_like(v):
    """isinstance(v, int) as pyvc encodes it (bool is a subclass of int)"""
    return z3.Or(Val.is_int(v), Val.is_bool(v))


def int_of(v):
    return z3.If(Val.is_bool(v), z3.If(Val.b(v), 1, 0), Val.i(v))


class ModStartServiceTask(FnSpec):
    """the module-level start_service_task(): exactly Context.start_service_task of the current context, arguments and result passed through"""
    qual = MOD_SST
    properties = ("C15", "C08")
    param_types = {"func": ANY, "name": ANY, "teardown_action": ANY}
    modifies = "rely"
    suspends = True
    may_raise = True

    def requires(self, F):
        return []

    def _clauses(self, F, normal):
        tr = F.new_st.trace
        calls = [e for e in tr if e[0] == "spec_call" and e[1] == CTX_SST]
        rets = [e for e in tr if e[0] == "spec_ret" and e[1] == CTX_SST]
        others = [e for e in tr if e[0] in ("opaque", "opaque-raise", "spawn")]
        out = [("delegates-once-to-the-current-context", z3.BoolVal(len(calls) <= 1 and not others))]
        for e in calls:
            a = e[2]
            out.append(("same-arguments-on-the-current-context",
                        z3.And(a["self"].t == F.old.h("g:curctx"), a["func"].t == F.t("func"), a["name"].t == F.t("name"),
                               a["teardown_action"].t == F.t("teardown_action"))))
        if normal:
            out.append(("returns-its-result", z3.BoolVal(len(rets) == 1) if len(rets) != 1 else F.result.t == rets[0][3].t))
        return out

    def local_ensures(self, F):
        return self._clauses(F, True)

    def local_raises(self, F):
        return self._clauses(F, False)


class RunApplicationAsync(FnSpec):
    """C15: the exit status is a function of how the application ended, and every way out goes through the root context's __aexit__
    (which runs the teardown callbacks, C01) before the status is returned or the exception propagates:
      startup failed / timed out / was cancelled by the signal handler -> 1;
      CLI component: run() result None -> 0, int (bool counts) in 0..127 -> itself, any other int or non-int -> 1, run() raising -> that
      exception propagates (through the context exit);  non-CLI component: returns 0 and only after the shutdown event was set."""
    qual = RUN
    properties = ("C15",)
    param_types = {"component_class": ANY, "config": ANY, "max_threads": ANY, "start_timeout": ANY}
    modifies = "rely"
    suspends = True
    may_raise = True
    frame_rule = True

    def requires(self, F):
        return plugin_private(F.old, Val.a(F.eng.reg.global_ref("_component.component_types")))

    def init_ghost(self, eng, st):
        st.ghost["run_called"] = False
        st.ghost["run_awaitable"] = None
        st.ghost["run_result"] = None
        st.ghost["run_raised"] = None

    def after_opaque_call(self, eng, st_before, st_after, f, args, result, exc, anchor):
        # `await component.run()`: the engine folds the call and its await into one step whose result is the awaited value
        if ".run" in anchor:
            st_after.ghost = dict(st_after.ghost)
            st_after.ghost["run_called"] = True
            if exc is None:
                st_after.ghost["run_result"] = result.t
            else:
                st_after.ghost["run_raised"] = exc.t

    def after_spec_call(self, eng, st, qual, args, res, exc, anchor):
        if qual == MOD_SST:
            # A-SIG0: the signal handler task cannot cancel the startup scope before the call that starts it has returned (it reaches its
            # first wait only after its starter was resumed); so a failure of that call is never the scope's own cancellation
            scope = st.env.get(roles_with_target(eng.fi.node))
            if scope is not None:
                st.assume(z3.Not(z3.Select(st.heap["g:cs_cancelled"], Val.a(scope.t))))
                st.uses.add("A-SIG0")
        if qual == START and exc is None:
            st.ghost["heap_at_start_ret"] = HeapView(dict(st.heap))

    def _facts(self, F):
        tr = F.new_st.trace
        idx = lambda pred: [i for i, e in enumerate(tr) if pred(e)]
        return {
            "tr": tr,
            "enter": idx(lambda e: e[0] == "spec_ret" and e[1] == CTX_ENTER),
            "exit": idx(lambda e: e[0] == "spec_call" and e[1] == CTX_EXIT),
            "exit_done": idx(lambda e: e[0] in ("spec_ret", "spec_raise") and e[1] == CTX_EXIT),
            "sst": idx(lambda e: e[0] == "spec_call" and e[1] == MOD_SST),
            "start": idx(lambda e: e[0] == "spec_call" and e[1] == START),
            "start_ret": idx(lambda e: e[0] == "spec_ret" and e[1] == START),
            "start_raise": idx(lambda e: e[0] == "spec_raise" and e[1] == START),
            "ev_wait": idx(lambda e: e[0] == "suspend" and "await-event" in e[1]),
        }

    def _structure(self, F, f):
        tr = f["tr"]
        out = [("one-root-context-one-startup", z3.BoolVal(len(f["enter"]) <= 1 and len(f["start"]) <= 1 and len(f["exit"]) <= 1))]
        if f["enter"]:
            # once the root context is entered, the only way out is through its __aexit__, and nothing happens after it
            last_other = max([i for i, e in enumerate(tr) if e[0] in ("spec_call", "opaque", "opaque-raise", "suspend", "spawn")
                              and not (e[0] == "spec_call" and e[1] == CTX_EXIT) and not (e[0] == "suspend" and "Context.exit" in str(e[1]))
                              and (not f["exit"] or i < f["exit"][0] or e[0] != "suspend")] or [-1])
            out.append(("root-context-left-through-aexit-after-everything-else",
                        z3.BoolVal(len(f["exit"]) == 1 and f["exit"][0] > f["enter"][0] and last_other < f["exit"][0])))
            if f["exit"]:
                a = tr[f["exit"][0]][2]
                root = tr[f["enter"][0]][2]["self"].t
                out.append(("leaves-the-context-it-entered", a["self"].t == root))
        if f["start"]:
            out.append(("started-inside-the-root-context", z3.BoolVal(bool(f["enter"]) and f["enter"][0] < f["start"][0])))
            a = tr[f["start"][0]][2]
            out.append(("starts-the-given-component-with-the-given-config-and-timeout",
                        z3.And(a["component_class"].t == F.t("component_class"), a["config"].t == F.t("config"), a["timeout"].t == F.t("start_timeout"))))
            if f["sst"]:
                out.append(("signal-handler-started-before-startup", z3.BoolVal(f["sst"][0] < f["start"][0] and f["enter"] and f["enter"][0] < f["sst"][0])))
        return out

    def local_ensures(self, F):
        f = self._facts(F)
        g = F.new_st.ghost
        out = self._structure(F, f)
        res = F.result.t
        if not f["enter"] or not f["start"]:
            out.append(("returns-only-after-a-startup-attempt", z3.BoolVal(False)))
            return out
        if f["start_raise"]:
            out.append(("startup-failure-timeout-or-cancellation-gives-status-1", res == Val.int(z3.IntVal(1))))
            out.append(("nothing-is-run-after-a-failed-startup", z3.BoolVal(not g["run_called"] and not f["ev_wait"])))
            return out
        if not f["start_ret"]:
            # startup was cancelled from outside the call (startup scope swallowed the cancellation): only via the cancel scope
            out.append(("status-without-startup-result-only-by-cancellation", z3.BoolVal(not g["run_called"] and not f["ev_wait"])))
            return out
        comp = F.new_st.trace[f["start_ret"][0]][3].t
        Hs = g.get("heap_at_start_ret") or F.new
        is_cli = z3.And(Val.is_ref(comp), subcls(Hs.fld("__class__", Val.a(comp)), con("CLIApplicationComponent")))
        if g["run_called"]:
            rc = g["run_result"]
            out.append(("run-only-for-a-CLI-component", is_cli))
            if rc is None:
                out.append(("status-only-after-run-returned", z3.BoolVal(False)))
            else:
                want = z3.If(is_int_like(rc), z3.If(z3.And(0 <= int_of(rc), int_of(rc) <= 127), res == rc, res == Val.int(z3.IntVal(1))),
                             z3.If(rc == VNone, res == Val.int(z3.IntVal(0)), res == Val.int(z3.IntVal(1))))
                out.append(("cli-status:None->0,int-in-0..127->itself,anything-else->1", want))
        else:
            out.append(("no-run-only-for-a-non-CLI-component", z3.Not(is_cli)))
            out.append(("non-CLI:returns-0-only-after-the-shutdown-event", z3.And(res == Val.int(z3.IntVal(0)), z3.BoolVal(len(f["ev_wait"]) == 1))))
        return out

    def local_raises(self, F):
        f = self._facts(F)
        g = F.new_st.ghost
        out = self._structure(F, f)
        if g["run_raised"] is not None and f["exit"]:
            a = F.new_st.trace[f["exit"][0]][2]
            out.append(("a-crash-in-run-reaches-the-root-context-exit-unchanged", a["exc_val"].t == g["run_raised"]))
        return out


def roles_with_target(fnode):
    from pyvc import roles
    return roles.with_target(fnode, "CancelScope")


def type_of_obj(F, v):
    return z3.If(Val.is_ref(v), F.new.fld("__class__", Val.a(v)), type_of(v))


def register(reg):
    def pure_ext(eng, st, pos, kw, node):
        st.uses.add("A-PURE-EXT")
        return [Res(st, SV(fresh("ext"), ANY))]
    for name in ("platform.system", "functools.partial", "anyio.get_cancelled_exc_class"):
        reg.ext_calls.setdefault(name, pure_ext)
    reg.assumptions_text["A-SIG0"] = ("the signal handler service task does not cancel the startup scope before start_service_task() has "
                                      "returned to its caller (asyncio/trio resume the starter before the handler's first wait completes)")
    reg.assumptions_text["A-PURE-EXT"] = "platform.system(), functools.partial(...), anyio.get_cancelled_exc_class() return a value and have no effect"
    reg.add(ModStartServiceTask)
    reg.add(RunApplicationAsync)


class RunApplication(FnSpec):
    """C15: run_application(): configures logging, runs _run_application_async(component_class, config, max_threads, start_timeout) exactly
    once under anyio.run with the given backend; a falsy status returns normally, a truthy status n leaves through sys.exit(n) (SystemExit
    carrying exactly n); an exception of the run propagates unchanged."""
    qual = "_runner.run_application"
    properties = ("C15",)
    param_types = {"component_class": ANY, "config": ANY, "backend": ANY, "backend_options": ANY, "max_threads": ANY, "logging": ANY,
                   "start_timeout": ANY}
    modifies = "rely"
    may_raise = True
    check_guarantee = False

    def requires(self, F):
        return []

    def _runs(self, F):
        tr = F.new_st.trace
        return [e for e in tr if e[0] in ("opaque", "opaque-raise") and "anyio.run" in str(e[4])], [e for e in tr if e[0] == "new_exc"]

    def _common(self, F, runs):
        out = [("runs-the-application-exactly-once", z3.BoolVal(len(runs) == 1))]
        for e in runs[:1]:
            a = e[2]
            out.append(("runs-the-async-runner-with-the-given-arguments",
                        z3.And(z3.BoolVal(len(a) >= 5), *([a[0].t == con("func:_runner._run_application_async"), a[1].t == F.t("component_class"),
                                                          a[2].t == F.t("config"), a[3].t == F.t("max_threads"), a[4].t == F.t("start_timeout")]
                                                         if len(a) >= 5 else []))))
            out.append(("passes-backend-and-options", z3.BoolVal(len(a) == 7) if len(a) != 7 else z3.And(a[5].t == F.t("backend"), a[6].t == F.t("backend_options"))))
        return out

    def local_ensures(self, F):
        runs, news = self._runs(F)
        out = self._common(F, runs)
        if len(runs) == 1 and runs[0][0] == "opaque":
            out.append(("plain-return-only-for-a-falsy-status", z3.Not(truthy_u_any(F, runs[0][3]))))
        out.append(("never-exits-itself-on-the-normal-path", z3.BoolVal(not news)))
        return out

    def local_raises(self, F):
        runs, news = self._runs(F)
        out = self._common(F, [r for r in runs]) if runs else []
        if news:
            # SystemExit created here: exactly sys.exit(status) for the truthy status returned by the run
            ok = z3.BoolVal(False)
            if len(runs) == 1 and runs[0][0] == "opaque" and news[-1][1] == "SystemExit":
                code = F.new.fld("code", news[-1][2]) if False else None
                ok = z3.And(truthy_u_any(F, runs[0][3]), F.new_st.ghost.get("exit_code", VNone) == runs[0][3].t)
            out.append(("exits-with-exactly-the-status-of-the-run", ok))
        elif runs and runs[0][0] == "opaque-raise":
            out.append(("an-exception-of-the-run-propagates-unchanged", F.exc.t == runs[0][3].t))
        return out

    def on_new_exception(self, eng, st, cls, a, args):
        if cls == "SystemExit":
            st.ghost = dict(st.ghost)
            st.ghost["exit_code"] = args[0].t if args else VNone


def truthy_u_any(F, v):
    return F.eng.truth(F.new_st, v)


def register_run(reg):
    def sys_exit(eng, st, pos, kw, node):
        r = eng.raise_new(st, "SystemExit", pos)
        return [r]
    reg.ext_calls["sys.exit"] = sys_exit
    reg.add(RunApplication)


class HandleSignals(FnSpec):
    """C15: the signal handler service task: reports started() only after the receiver for SIGTERM/SIGINT is installed; on the first
    signal it cancels the startup scope and sets the shutdown event (both, in that atomic segment) and stops listening."""
    qual = "_runner.handle_signals"
    properties = ("C15",)
    param_types = {"startup_scope": LIB("CancelScope"), "event": LIB("AnyioEvent"), "task_status": LIB("TaskStatus")}
    modifies = "rely"
    suspends = True
    may_raise = True
    check_guarantee = False

    def requires(self, F):
        return []

    def on_loop_body(self, eng, st, k, it):
        st.ghost["iter_trace_start"] = len(st.trace)

    def _loop0(self, L):
        out = [("alloc-monotone", L.cur.alloc >= L.entry.alloc)]
        return out

    def _clauses(self, F, normal):
        tr = F.new_st.trace
        started = [i for i, e in enumerate(tr) if e[0] == "lib" and "started" in str(e[1])]
        recv = [i for i, e in enumerate(tr) if e[0] == "lib" and e[1] == "open_signal_receiver"]
        cancels = [i for i, e in enumerate(tr) if e[0] == "cs_cancel"]
        sets = [i for i, e in enumerate(tr) if e[0] == "ev_set"]
        out = [("receiver-installed-before-started-is-reported", z3.BoolVal(len(recv) == 1 and len(started) <= 1 and (not started or recv[0] < started[0])))]
        if normal:
            out.append(("started-was-reported", z3.BoolVal(len(started) == 1)))
        if cancels or sets or (normal and "iter_trace_start" in F.new_st.ghost):
            # (a signal was received: the loop body ran)
            ok = len(cancels) == 1 and len(sets) == 1
            between = tr[min(cancels + sets): max(cancels + sets) + 1] if ok else []
            out.append(("first-signal:cancels-the-startup-scope-and-sets-the-shutdown-event-atomically",
                        z3.And(z3.BoolVal(ok and not any(e[0] in ("suspend", "opaque", "opaque-raise") for e in between)),
                               *([tr[cancels[0]][1].t == F.t("startup_scope"), tr[sets[0]][1].t == F.t("event")] if ok else []))))
        return out

    def local_ensures(self, F):
        tr = F.new_st.trace
        out = self._clauses(F, True)
        return out

    def local_raises(self, F):
        return self._clauses(F, False)

    def __init__(self):
        self.loops = {0: self._loop0}


def register_signals(reg):
    reg.lib_classes |= {"SignalReceiverCM", "SignalReceiver"}
    from .lib_anyio import new_lib

    def open_receiver(eng, st, pos, kw, node):
        st.uses.add("A-SIGRECV")
        v = new_lib(eng, st, "SignalReceiverCM")
        st.trace.append(("lib", "open_signal_receiver", pos))
        return [Res(st, v)]
    reg.ext_calls["anyio.open_signal_receiver"] = open_receiver

    def rc_enter(eng, st, cm, is_async, item):
        return [Res(st, new_lib(eng, st, "SignalReceiver"))]

    def rc_exit(eng, o, cm, is_async, item):
        return [o]
    reg.lib_cms["SignalReceiverCM"] = (rc_enter, rc_exit)
    reg.ext_calls.setdefault("signal.strsignal", lambda eng, st, pos, kw, node: [Res(st, SV(fresh("strsignal"), ANY))])
    reg.assumptions_text["A-SIGRECV"] = ("anyio.open_signal_receiver(*signals) installs the handlers when the with-block is entered and yields an "
                                         "async iterator of received signal numbers; leaving the block restores the previous handlers")
    reg.add(HandleSignals)
