#!/bin/bash
# usage: selftest/seed_harness.sh <patch.diff> <Cxx> [budget] -- run only the native harness of a property on a scratch copy with the patch applied
PATCH=$(realpath "$1"); P=$2; B=${3:-quick}
D=$(mktemp -d /tmp/pyvc-seedh.XXXXXX)
trap 'rm -rf "$D"' EXIT
mkdir -p "$D/repo" && cp -r /repo/src "$D/repo/src"
( cd "$D/repo" && patch -p1 -s < "$PATCH" ) || { echo "PATCH FAILED"; exit 9; }
cd /verif/replay
VERIF_REPO_SRC="$D/repo/src" /venv/bin/python h_${P,,}.py search --budget $B | python3 -c "
import json,sys; d=json.loads(sys.stdin.read()); print('$P', d.get('violation'), d['evaluations'], (d.get('detail') or '')[:300])"
