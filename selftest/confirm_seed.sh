#!/bin/bash
# usage: selftest/confirm_seed.sh <Cxx> <mK>   confirm an agent-produced mutant in a scratch worktree and store it under /verif/seeded
P=$1; K=$2
SRC=${SRC:-/tmp/seed/$P/out/$K}
WT=$(mktemp -d /tmp/confirm.XXXXXX)
git -C /repo worktree add -q --detach "$WT/wt" HEAD || exit 9
cd "$WT/wt"
res="ok"
git apply --check "$SRC/patch.diff" || res="patch-does-not-apply"
if [ "$res" = ok ]; then
  PYTHONPATH=$WT/wt/src /venv/bin/python "$SRC/demo.py" >/dev/null 2>&1; clean=$?
  git apply "$SRC/patch.diff"
  PYTHONPATH=$WT/wt/src /venv/bin/python -m pytest -q -p no:cacheprovider tests > "$WT/tests.log" 2>&1
  summary=$(tail -1 "$WT/tests.log")
  PYTHONPATH=$WT/wt/src /venv/bin/python "$SRC/demo.py" > "$WT/demo.log" 2>&1; mut=$?
  onlysrc=$(git status --porcelain | grep -v "^ M src/" | wc -l)
  echo "$P/$K: clean-demo-exit=$clean mutant-demo-exit=$mut tests='$summary' non-src-changes=$onlysrc"
  if [ $clean -eq 0 ] && [ $mut -eq 1 ] && echo "$summary" | grep -q "4 failed, 287 passed" && [ $onlysrc -eq 0 ]; then
    D=/verif/seeded/$P-$K; mkdir -p $D
    cp "$SRC/patch.diff" "$SRC/demo.py" $D/
    python3 - "$SRC/meta.json" "$D/meta.json" "$summary" <<'PY'
import json,sys
m=json.load(open(sys.argv[1]))
m["confirmed"]={"tests_with_mutant":sys.argv[3],"demo_exit_with_mutant":1,"demo_exit_clean":0,
  "ran":"scratch worktree of /repo HEAD: git apply patch.diff; PYTHONPATH=<wt>/src /venv/bin/python -m pytest -q tests; PYTHONPATH=<wt>/src /venv/bin/python demo.py (with and without the patch)"}
json.dump(m,open(sys.argv[2],"w"),indent=1)
PY
    echo "   stored in $D"
  else
    echo "   NOT CONFIRMED"; tail -5 "$WT/demo.log"
  fi
else
  echo "$P/$K: $res"
fi
cd /; git -C /repo worktree remove --force "$WT/wt"; rm -rf "$WT"
