#!/bin/bash
# usage: selftest/mut.sh <patch.diff> <qual> [qual...]   -- run pyvc on a scratch copy of /repo with the patch applied
set -e
PATCH=$(realpath "$1"); shift
D=$(mktemp -d /tmp/pyvc-mut.XXXXXX)
trap 'rm -rf "$D"' EXIT
mkdir -p "$D/repo" && cp -r /repo/src "$D/repo/src"
( cd "$D/repo" && patch -p1 -s < "$PATCH" )
cd /verif && VERIF_REPO_SRC="$D/repo/src" python3-vt -m pyvc.run1 "$@"
