#!/bin/bash
# usage: selftest/seed_eval.sh <patch.diff> <Cxx> [more props]  -- run ./check on a scratch copy of /repo with the patch applied
PATCH=$(realpath "$1"); shift
D=$(mktemp -d /tmp/pyvc-seed.XXXXXX)
trap 'rm -rf "$D"' EXIT
mkdir -p "$D/repo" && cp -r /repo/src "$D/repo/src"
( cd "$D/repo" && patch -p1 -s < "$PATCH" ) || { echo "PATCH FAILED"; exit 9; }
cd /verif
for P in "$@"; do
  VERIF_OUT="$D/out" VERIF_REPO_SRC="$D/repo/src" ./check $P > "$D/out.$P" 2>&1; rc=$?
  echo "[$P exit=$rc] $(grep -E '^VIOLATION|obligation:|untranslatable' "$D/out.$P" | head -4 | tr '\n' ' ' | cut -c1-400)"
done
