"""C12 harness: current_context() follows strict per-task stack discipline."""
import random
import anyio
from hlib import main
from asphalt.core import Context, current_context, NoCurrentContext


def cur():
    try:
        return current_context()
    except NoCurrentContext:
        return None


class Bad(Exception):
    pass


async def nest(rnd_ops, depth, problems, explicit_root=None):
    """rnd_ops: list of ('ctx', how_to_leave, explicit_parent, teardown_raises, [sub ops]) executed sequentially"""
    for (kind, leave, explicit, td_raises, sub) in rnd_ops:
        before = cur()
        parent = explicit_root if (explicit and explicit_root is not None) else None
        ctx = Context(parent) if parent is not None else Context()
        want_parent = parent if parent is not None else before
        if ctx.parent is not want_parent:
            problems.append(f"new context took {ctx.parent!r} as parent, expected {want_parent!r}")
        try:
            async with ctx:
                if cur() is not ctx:
                    problems.append("inside `async with ctx` current_context() is not ctx")
                if td_raises:
                    def boom():
                        raise Bad("td")
                    ctx.add_teardown_callback(boom)

                def probe():
                    if cur() is not ctx:
                        problems.append("during teardown current_context() is not the context being torn down")
                ctx.add_teardown_callback(probe)
                await nest(sub, depth + 1, problems, explicit_root or ctx)
                if cur() is not ctx:
                    problems.append("after leaving a nested block current_context() is not the enclosing context")
                if leave == "exception":
                    raise Bad("block")
                if leave == "cancel":
                    with anyio.CancelScope() as sc:
                        sc.cancel()
                        await anyio.sleep(0)
        except (Bad, BaseExceptionGroup):
            pass
        if cur() is not before:
            problems.append(f"after leaving the block by {leave}{' with failing teardown' if td_raises else ''} current_context() is "
                            f"{cur()!r}, expected what it was before entry ({before!r})")


def gen(rnd, depth):
    ops = []
    for _ in range(rnd.randint(1, 2)):
        sub = gen(rnd, depth - 1) if depth > 0 and rnd.random() < 0.7 else []
        ops.append(("ctx", rnd.choice(["normal", "exception", "cancel"]), rnd.random() < 0.3, rnd.random() < 0.3, sub))
    return ops


async def scenario(sc):
    problems = []
    if cur() is not None:
        problems.append("a fresh task has a current context")

    async def task(ops, ev_mine, ev_other):
        ev_mine.set()
        await ev_other.wait()
        await nest(ops, 0, problems)
        if cur() is not None:
            problems.append("task ended with a current context left behind")
    a, b = anyio.Event(), anyio.Event()
    async with anyio.create_task_group() as tg:
        tg.start_soon(task, sc["t1"], a, b)
        tg.start_soon(task, sc["t2"], b, a)
    # inheritance at spawn
    async with Context() as outer:
        seen = []

        async def child():
            seen.append(cur())
            async with Context() as inner:
                seen.append(inner.parent)
        async with anyio.create_task_group() as tg:
            tg.start_soon(child)
        if seen != [outer, outer]:
            problems.append(f"spawned task saw {seen!r}, expected to inherit the spawner's current context")
    return problems


def check(sc):
    try:
        return anyio.run(scenario, sc)
    except BaseException as e:
        return [f"scenario crashed: {type(e).__name__}: {e}"]


def search(seed, budget):
    rnd = random.Random(seed)
    n = 1500 if budget == "quick" else 12000
    seen = set()
    for i in range(n):
        sc = {"t1": gen(rnd, 2), "t2": gen(rnd, 2)}
        seen.add(repr(sc))
        p = check(sc)
        if p:
            return {"violation": True, "input": sc, "detail": "; ".join(p[:3]), "evaluations": i + 1, "distinct": len(seen)}
    return {"violation": False, "evaluations": n, "distinct": len(seen),
            "scope": "two interleaved tasks, each a tree (depth<=3) of nested contexts left by return/exception/cancellation, with failing "
                     "teardown, explicit parents; plus inheritance at spawn"}


def replay(sc):
    p = check({"t1": [tuple(x) for x in sc["t1"]], "t2": [tuple(x) for x in sc["t2"]]})
    return bool(p), "; ".join(p[:3]) or "stack discipline holds on this scenario"


if __name__ == "__main__":
    main(search, replay)
