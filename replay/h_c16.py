"""C16 harness: `asphalt run` hands run_application exactly the documented configuration (files in order, then
--set overrides, then the selected service's section over the top-level keys), selects the service by the
documented ladder, and starts nothing when the selection fails. Differential test against an independent model."""
import copy, json, os, random, tempfile
from unittest.mock import patch

from hlib import main
import yaml
from click.testing import CliRunner
from asphalt.core import _cli

# ---------------------------------------------------------------------------------------------------------------
# scenario format (JSON):
#   files   : list of {"tree": <dict>, "block": <int>}   tree = YAML document root; leaves may be tag markers
#             {"!Env": var} / {"!TextFile": blob} / {"!BinaryFile": blob}; block = number of levels in block style
#   sets    : list of raw "--set" argument strings "key=value"
#   service : value of --service or None;  service_opt: 0/1/2 = "-s N" / "--service N" / "--service=N"
#   env_service : value of ASPHALT_SERVICE or None
#   env     : {var: value} visible to !Env;  blobs: {name: hex} files visible to !TextFile / !BinaryFile
#   order   : order of the command line groups ("f0", "s1", "svc", ...)
# ---------------------------------------------------------------------------------------------------------------
TAGS = ("!Env", "!TextFile", "!BinaryFile")
OK, FAIL, UNSPEC = "ok", "fail", "unspecified"


def is_marker(v):
    return isinstance(v, dict) and len(v) == 1 and next(iter(v)) in TAGS


# ------------------------------------------------ YAML emitter -------------------------------------------------
def q(s):
    return json.dumps(s, ensure_ascii=False)


def flow(v, paths):
    if is_marker(v):
        (tag, arg), = v.items()
        return f"{tag} {q(arg if tag == '!Env' else paths[arg])}"
    if isinstance(v, dict):
        return "{" + ", ".join(f"{q(k)}: {flow(x, paths)}" for k, x in v.items()) + "}"
    if isinstance(v, list):
        return "[" + ", ".join(flow(x, paths) for x in v) + "]"
    return json.dumps(v, ensure_ascii=False)


def block(d, levels, paths, indent=0):
    if not d or levels <= 0:
        return " " * indent + flow(d, paths) + "\n"
    out = []
    pad = " " * indent
    for k, v in d.items():
        if isinstance(v, dict) and v and not is_marker(v) and levels > 1:
            out.append(f"{pad}{q(k)}:\n" + block(v, levels - 1, paths, indent + 2))
        elif isinstance(v, list) and v and levels > 1:
            out.append(f"{pad}{q(k)}:\n" + "".join(f"{pad}  - {flow(x, paths)}\n" for x in v))
        else:
            out.append(f"{pad}{q(k)}: {flow(v, paths)}\n")
    return "".join(out)


# ---------------------------------------------- reference model ------------------------------------------------
def resolve(v, sc):
    """document tree -> the value the document denotes (tags substituted)"""
    if is_marker(v):
        (tag, arg), = v.items()
        if tag == "!Env":
            return sc["env"][arg]
        data = bytes.fromhex(sc["blobs"][arg])
        return data.decode("utf-8") if tag == "!TextFile" else data
    if isinstance(v, dict):
        return {k: resolve(x, sc) for k, x in v.items()}
    if isinstance(v, list):
        return [resolve(x, sc) for x in v]
    return v


def deep_merge(base, over):
    out = dict(base)
    for k, v in over.items():
        if k in out and isinstance(out[k], dict) and isinstance(v, dict):
            out[k] = deep_merge(out[k], v)
        else:
            out[k] = v
    return out


def split_key(key):
    """dots separate keys unless escaped with a backslash"""
    parts, cur, i = [], "", 0
    while i < len(key):
        c = key[i]
        if c == "\\" and i + 1 < len(key) and key[i + 1] == ".":
            cur += "."
            i += 2
        elif c == ".":
            parts.append(cur)
            cur = ""
            i += 1
        else:
            cur += c
            i += 1
    parts.append(cur)
    return parts


def model(sc, dict_override_merges):
    """-> (OK, type, component config, options) | (FAIL,) | (UNSPEC, why).
    dict_override_merges: the one point where the documentation can be read both ways (a --set whose value is a
    mapping, applied on an existing mapping: "set" = replace, "merged using merge_config" = merge)."""
    cfg = {}
    for f in sc["files"]:
        cfg = deep_merge(cfg, resolve(f["tree"], sc))
    cfg = copy.deepcopy(cfg)
    for ov in sc["sets"]:
        key, _, text = ov.partition("=")
        val = yaml.safe_load(text)
        path = split_key(key)
        node = cfg
        for p in path[:-1]:
            if p not in node:
                node[p] = {}
            node = node[p]
            if not isinstance(node, dict):
                return (UNSPEC, "override path runs through a value that is not a mapping")
        if dict_override_merges and isinstance(node.get(path[-1]), dict) and isinstance(val, dict):
            node[path[-1]] = deep_merge(node[path[-1]], val)
        else:
            node[path[-1]] = val
    name = sc.get("service") or sc.get("env_service")
    if "services" in cfg:
        services = cfg.pop("services")
        if not isinstance(services, dict):
            return (UNSPEC, "services is not a mapping")
        if "component" in cfg:
            return (UNSPEC, "both a top-level component and a services section")
        if name is not None:
            if name not in services:
                return (FAIL,)
            section = services[name]
        elif len(services) == 1:
            section = next(iter(services.values()))
        elif "default" in services:
            section = services["default"]
        else:
            return (FAIL,)                     # none defined, or several without `default`
    else:
        if "component" not in cfg:
            return (FAIL,)                     # nothing to run at all
        if name is not None:
            # the plain layout has no named services; "default" as its implicit name is not documented
            return (UNSPEC, "implicit service named explicitly") if name == "default" else (FAIL,)
        section = {}
    if not isinstance(section, dict):
        return (UNSPEC, "service section is not a mapping")
    final = deep_merge(cfg, section)
    comp = final.pop("component", None)
    if not isinstance(comp, dict) or "type" not in comp:
        return (UNSPEC, "no root component type")
    comp = dict(comp)
    ctype = comp.pop("type")
    return (OK, ctype, comp, final)


# ------------------------------------------------- comparison --------------------------------------------------
def canon(v):
    """type-strict canonical form (1 != True != 1.0, str != bytes, dict order irrelevant)"""
    if isinstance(v, dict):
        return ("dict", tuple(sorted(((canon(k), canon(x)) for k, x in v.items()), key=repr)))
    if isinstance(v, (list, tuple)):
        return (type(v).__name__, tuple(canon(x) for x in v))
    return (type(v).__name__, repr(v))


def norm_call(args, kwargs):
    """what run_application would see, independent of positional/keyword passing and of spelled-out defaults"""
    d = dict(kwargs)
    for n, a in zip(("component_class", "config"), args):
        d[n] = a
    if len(args) > 2:
        d["*extra"] = list(args[2:])
    if d.get("config") is None:
        d["config"] = {}
    d.setdefault("backend", "asyncio")
    if d.get("backend_options") is None:
        d["backend_options"] = {}
    d.setdefault("max_threads", None)
    d.setdefault("logging", 20)
    d.setdefault("start_timeout", 10)
    return d


# --------------------------------------------------- running ---------------------------------------------------
def build_args(sc, fpaths):
    groups = {}
    for i, p in enumerate(fpaths):
        groups[f"f{i}"] = [p]
    for i, ov in enumerate(sc["sets"]):
        groups[f"s{i}"] = ["--set", ov]
    if sc.get("service") is not None:
        n = sc["service"]
        groups["svc"] = [["-s", n], ["--service", n], [f"--service={n}"]][sc.get("service_opt", 0)]
    args = []
    for g in sc["order"]:
        args += groups.pop(g)
    assert not groups, groups
    return args


def observe(sc):
    with tempfile.TemporaryDirectory(prefix="h-c16-") as d:
        paths = {}
        for i, (name, hx) in enumerate(sc["blobs"].items()):
            paths[name] = os.path.join(d, name)
            with open(paths[name], "wb") as fh:
                fh.write(bytes.fromhex(hx))
        fpaths = []
        for i, f in enumerate(sc["files"]):
            p = os.path.join(d, f"conf{i}.yaml")
            with open(p, "w", encoding="utf-8") as fh:
                fh.write(("---\n" if f.get("docstart") else "") + block(f["tree"], f["block"], paths))
            fpaths.append(p)
        env = {"ASPHALT_SERVICE": sc.get("env_service")}
        env.update(sc["env"])
        with patch("asphalt.core._cli.run_application") as m:
            result = CliRunner().invoke(_cli.run, build_args(sc, fpaths), env=env)
        calls = [(tuple(c.args), dict(c.kwargs)) for c in m.call_args_list]
        exc = result.exception
        return calls, result.exit_code, (None if exc is None or isinstance(exc, SystemExit) else f"{type(exc).__name__}: {exc}")


def short(v, n=300):
    s = repr(v)
    return s if len(s) <= n else s[:n] + "..."


def check(sc):
    """-> None or a description of the discrepancy"""
    outcomes = []
    for mode in (False, True):
        o = model(sc, mode)
        if o not in outcomes:
            outcomes.append(o)
    calls, code, exc = observe(sc)
    started = len(calls)
    failed = started == 0 and code != 0
    ran = started == 1 and code == 0
    if not (failed or ran):
        return (f"run_application called {started} time(s) with exit code {code} (exception {exc}); expected either one start "
                f"and exit code 0, or an error and nothing started")
    if any(o[0] == UNSPEC for o in outcomes):
        return None
    if failed:
        if any(o[0] == FAIL for o in outcomes):
            return None
        o = outcomes[0]
        return (f"command failed (exit code {code}, {exc or 'error reported'}) and started nothing; expected "
                f"run_application({short(o[1])}, {short(o[2])}, **{short(o[3])})")
    args, kwargs = calls[0]
    got = norm_call(args, kwargs)
    wants = []
    for o in outcomes:
        if o[0] == OK:
            want = norm_call((o[1], o[2]), o[3])
            if canon(want) == canon(got):
                return None
            wants.append(want)
    if not wants:
        return (f"run_application was started with {short(args)} although service selection must fail "
                f"(--service={sc.get('service')!r}, ASPHALT_SERVICE={sc.get('env_service')!r})")
    want = wants[0]
    diff = [k for k in sorted(set(want) | set(got)) if canon(want.get(k, "<absent>")) != canon(got.get(k, "<absent>"))]
    return "run_application received a different configuration: " + "; ".join(
        f"{k}: got {short(got.get(k, '<absent>'), 200)}, expected {short(want.get(k, '<absent>'), 200)}" for k in diff[:3])


# -------------------------------------------------- generator --------------------------------------------------
SERVICE_NAMES = ["default", "web", "worker", "a.b", "client"]
MISSING_NAMES = ["nope", "Default", "web2", "a", "services"]
TYPES = ["pkg.mod:Root", "proj.server:ServerComponent", "proj.client:ClientComponent", "entrypoint", "x.y.z:C"]
PARAM_KEYS = ["a", "b", "c.d", "opts", "e"]
ALIASES = ["mailer", "db", "db/replica", "x.y"]
TEXTS = ["Hello, World!", "line1\nline2\n", "pässwörd ✓", "", "  spaced  ", "key: value\n- not parsed as yaml\n"]
BINS = ["00ff10800d0a", "89504e470d0a1a0a", ""]
ENV_VALUES = ["from environment", "", "123", "true", "with: colon", "späce ✓"]
SET_VALUES = ["1", "0", "-3", "2.5", "true", "false", "yes", "null", "~", "", "hello", "hello world", " 7 ", "'quoted'",
              "\"dq: x\"", "[1, 2, three]", "[]", "{}", "{x: 1}", "{x: {y: [1, 2]}, z: null}", "{a: 9, n: {m: 1}}", "a=b",
              "k: v", "1e3", "0x10", "010", "1_000", "2001-01-01", "DEBUG", "a.b", "proj.other:Other", "'123'", "[{a: 1}, [2]]"]


def shuffled(rnd, d):
    items = list(d.items())
    rnd.shuffle(items)
    return dict(items)


def gen_leaf(rnd, res):
    r = rnd.random()
    if r < 0.22 and (res["env"] or res["text"] or res["bin"]):
        kinds = [k for k in ("env", "text", "bin") if res[k]]
        k = rnd.choice(kinds)
        if k == "env":
            return {"!Env": rnd.choice(res["env"])}
        if k == "text":
            return {"!TextFile": rnd.choice(res["text"])}
        return {"!BinaryFile": rnd.choice(res["text"] + res["bin"])}
    if r < 0.35:
        return rnd.choice([[], [1, 2], ["x", {"k": 1}], [None, True], [gen_leaf(rnd, res), "z"]])
    if r < 0.42:
        return {}
    return rnd.choice([None, 0, 1, 7, -2, True, False, "s", "t u", "", "1", "null", 1.5, "väl"])


def gen_params(rnd, res, depth, keys=PARAM_KEYS, pmin=0):
    d = {}
    for k in rnd.sample(keys, rnd.randint(pmin, min(3, len(keys)))):
        if depth > 0 and rnd.random() < 0.45:
            d[k] = gen_params(rnd, res, depth - 1, ["a", "b", "c.d", "n"], 1)
        else:
            d[k] = gen_leaf(rnd, res)
    return d


def gen_component(rnd, res, with_type):
    c = gen_params(rnd, res, 2)
    if with_type:
        c["type"] = rnd.choice(TYPES)
    if rnd.random() < 0.5:
        c["components"] = {a: (gen_params(rnd, res, 1) if rnd.random() < 0.85 else None)
                           for a in rnd.sample(ALIASES, rnd.randint(1, 2))}
    return shuffled(rnd, c)


def gen_logging(rnd, res):
    r = rnd.random()
    if r < 0.12:
        return rnd.choice([10, 20, 30, None])
    d = {}
    if rnd.random() < 0.6:
        d["version"] = 1
    if rnd.random() < 0.5:
        d["disable_existing_loggers"] = rnd.random() < 0.5
    if rnd.random() < 0.7:
        d["loggers"] = {n: {"level": rnd.choice(["DEBUG", "INFO", "WARNING"]), **({"propagate": rnd.random() < 0.5} if rnd.random() < 0.4 else {})}
                        for n in rnd.sample(["asphalt.templating", "asphalt", "root.x", "app"], rnd.randint(1, 2))}
    if rnd.random() < 0.3:
        d["root"] = {"level": rnd.choice(["INFO", "ERROR"]), "handlers": rnd.choice([["console"], []])}
    return shuffled(rnd, d)


def gen_options(rnd, res, p):
    """top-level style options (also valid inside a service section)"""
    d = {}
    if rnd.random() < p:
        d["max_threads"] = rnd.choice([5, 15, 30, None])
    if rnd.random() < p:
        d["start_timeout"] = rnd.choice([1, 2.5, 20, None])
    if rnd.random() < p * 0.6:
        d["backend"] = rnd.choice(["asyncio", "trio"])
    if rnd.random() < p:
        d["backend_options"] = rnd.choice([{"use_uvloop": True}, {"debug": False}, {"use_uvloop": False, "debug": True}, {}])
    if rnd.random() < p:
        d["logging"] = gen_logging(rnd, res)
    return d


LAYOUTS = ["plain", "plain", "nothing", "empty", "one", "one", "one-default", "several", "several", "several", "several-default",
           "several-default", "several-default", "mixed"]


def gen(rnd, big=False):
    env = {f"H16_VAR{i}": rnd.choice(ENV_VALUES) for i in range(rnd.randint(0, 2))}
    blobs, res = {}, {"env": sorted(env), "text": [], "bin": []}
    for i in range(rnd.randint(0, 2)):
        n = rnd.choice([f"blob{i}.txt", f"my file {i}.txt"])
        blobs[n] = rnd.choice(TEXTS).encode("utf-8").hex()
        res["text"].append(n)
    if rnd.random() < 0.4:
        blobs["data.bin"] = rnd.choice(BINS)
        res["bin"].append("data.bin")

    layout = rnd.choice(LAYOUTS)
    if layout in ("plain", "nothing"):
        names = []
    elif layout == "empty":
        names = []
    elif layout == "one":
        names = [rnd.choice(SERVICE_NAMES[1:])]
    elif layout == "one-default":
        names = ["default"]
    elif layout == "several":
        names = rnd.sample(SERVICE_NAMES[1:], rnd.randint(2, 3))
    elif layout == "several-default":
        names = rnd.sample(SERVICE_NAMES[1:], rnd.randint(1, 2)) + ["default"]
        rnd.shuffle(names)
    else:
        names = rnd.sample(SERVICE_NAMES, rnd.randint(1, 2))

    nfiles = rnd.choice([1, 1, 2, 2, 2, 3, 3] + ([4] if big else []))
    trees = []
    # base document: everything needed for a runnable configuration
    base = gen_options(rnd, res, 0.5)
    if layout in ("plain", "mixed"):
        base["component"] = gen_component(rnd, res, True)
    if layout not in ("plain", "nothing"):
        base["services"] = {n: shuffled(rnd, {**gen_options(rnd, res, 0.35), "component": gen_component(rnd, res, True)}) for n in names}
    trees.append(shuffled(rnd, base))
    # overlay documents: partial, overlapping
    for _ in range(nfiles - 1):
        t = gen_options(rnd, res, 0.4)
        if layout in ("plain", "mixed") and rnd.random() < 0.7:
            t["component"] = gen_component(rnd, res, rnd.random() < 0.25)
        if names and rnd.random() < 0.8:
            sv = {}
            for n in rnd.sample(names, rnd.randint(1, len(names))):
                s = gen_options(rnd, res, 0.3)
                if rnd.random() < 0.7:
                    s["component"] = gen_component(rnd, res, rnd.random() < 0.25)
                sv[n] = shuffled(rnd, s)
            if rnd.random() < 0.12:
                extra = rnd.choice(SERVICE_NAMES)
                if extra not in sv:
                    sv[extra] = {"component": gen_component(rnd, res, True)}
            t["services"] = shuffled(rnd, sv)
        trees.append(shuffled(rnd, t))
    if rnd.random() < 0.3:
        rnd.shuffle(trees)
    if rnd.random() < 0.04:
        trees = []                                     # configuration files are optional
    files = [{"tree": t, "block": rnd.choice([0, 1, 2, 3, 6]), "docstart": rnd.random() < 0.3} for t in trees]

    sc = {"files": files, "sets": [], "service": None, "service_opt": rnd.randint(0, 2), "env_service": None,
          "env": env, "blobs": blobs, "order": []}

    # --set overrides, aimed at what the documents define
    merged = {}
    for f in files:
        merged = deep_merge(merged, resolve(f["tree"], sc))
    nsets = rnd.choice([0, 1, 1, 2, 2, 3] + ([4] if big else []))
    if not files:
        nsets = max(nsets, 1)
    for j in range(nsets):
        dict_paths, leaf_paths = [()], []

        def walk(v, p):
            for k, x in v.items():
                if isinstance(x, dict):
                    dict_paths.append(p + (k,))
                    walk(x, p + (k,))
                else:
                    leaf_paths.append(p + (k,))
        walk(merged, ())
        r = rnd.random()
        if not files and j == 0:
            path = ("component", "type")
        elif r < 0.35 and leaf_paths:
            path = rnd.choice(leaf_paths)
        elif r < 0.47 and len(dict_paths) > 1:
            path = rnd.choice(dict_paths[1:])
        elif r < 0.77:
            path = rnd.choice(dict_paths) + (rnd.choice(PARAM_KEYS + ["new", "n.m", "max_threads", "type"]),)
        elif r < 0.9:
            path = rnd.choice(dict_paths) + (rnd.choice(["new", "c.d", "q"]), rnd.choice(["a", "n.m", "z"]))
        elif r < 0.92 and leaf_paths:
            path = rnd.choice(leaf_paths) + ("sub",)   # through a non-mapping: not specified by C16
        else:
            path = ("services", rnd.choice(SERVICE_NAMES), "component", rnd.choice(["type", "a"]))
        escape = rnd.random() >= 0.1                    # sometimes leave the dots unescaped: they then separate keys
        key = ".".join(seg.replace(".", "\\.") if escape else seg for seg in path)
        if path[-1] == "type":
            text = rnd.choice(TYPES + ["proj.other:Other"])
        elif path[-1] == "max_threads":
            text = rnd.choice(["8", "null", "40"])
        else:
            text = rnd.choice(SET_VALUES)
        sc["sets"].append(f"{key}={text}")
        # keep `merged` roughly up to date so that later overrides can hit keys created by earlier ones
        node, okp = merged, True
        for seg in split_key(key)[:-1]:
            node = node.setdefault(seg, {})
            if not isinstance(node, dict):
                okp = False
                break
        if okp:
            node[split_key(key)[-1]] = yaml.safe_load(text)

    defined = sorted(merged["services"]) if isinstance(merged.get("services"), dict) else []

    def pick():
        r = rnd.random()
        if r < (0.45 if defined else 0.85):
            return None
        if r < 0.9 and defined:
            return rnd.choice(defined)
        return rnd.choice(MISSING_NAMES + ["default"])
    sc["service"] = pick()
    sc["env_service"] = pick()
    groups = [f"f{i}" for i in range(len(files))] + [f"s{i}" for i in range(len(sc["sets"]))] + (["svc"] if sc["service"] is not None else [])
    sc["order"] = interleave(rnd, groups)
    return sc


def interleave(rnd, groups):
    """random command line order that keeps the files in order and the --set options in order"""
    fs = [g for g in groups if g[0] == "f"]
    ss = [g for g in groups if g[0] == "s" and g != "svc"]
    out = []
    mode = rnd.random()
    if mode < 0.4:
        out = fs + ss
    elif mode < 0.6:
        out = ss + fs
    else:
        while fs or ss:
            src = fs if (fs and (not ss or rnd.random() < 0.5)) else ss
            out.append(src.pop(0))
    if "svc" in groups:
        out.insert(rnd.randint(0, len(out)), "svc")
    return out


def ladder_scenarios():
    """exhaustive part: every service layout x every --service x every ASPHALT_SERVICE on a small fixed configuration
    whose top level and service sections overlap (so that the chosen service is visible in the result)"""
    def svc(i):
        return {"max_threads": 10 + i, "logging": {"loggers": {"app": {"level": f"L{i}"}}},
                "component": {"type": f"proj.s{i}:C{i}", "a": i, "opts": {"n": i}}}
    top = {"max_threads": 1, "start_timeout": 3, "logging": {"version": 1, "loggers": {"app": {"level": "TOP", "propagate": False}}}}
    layouts = {
        "plain": {**top, "component": {"type": "proj.plain:C", "a": 0}},
        "nothing": dict(top),
        "empty": {**top, "services": {}},
        "one": {**top, "services": {"web": svc(1)}},
        "one-default": {**top, "services": {"default": svc(0)}},
        "several": {**top, "services": {"web": svc(1), "worker": svc(2)}},
        "default-first": {**top, "services": {"default": svc(0), "web": svc(1), "worker": svc(2)}},
        "default-last": {**top, "services": {"web": svc(1), "worker": svc(2), "default": svc(0)}},
        "default-middle": {**top, "services": {"web": svc(1), "default": svc(0), "worker": svc(2)}},
    }
    out = []
    choices = [None, "web", "worker", "default", "nope"]
    for name, tree in layouts.items():
        for s in choices:
            for e in choices:
                out.append({"files": [{"tree": copy.deepcopy(tree), "block": 3, "docstart": True}], "sets": [], "service": s,
                            "service_opt": len(out) % 3, "env_service": e, "env": {}, "blobs": {},
                            "order": ["f0"] + (["svc"] if s is not None else [])})
    return out


# --------------------------------------------------- protocol --------------------------------------------------
def run_check(sc):
    try:
        return check(sc)
    except Exception as e:                      # a crash of the harness itself is reported, never swallowed
        return f"harness error: {type(e).__name__}: {e}"


def search(seed, budget):
    rnd = random.Random(seed)
    n_random = 1500 if budget == "quick" else 40000
    seen = set()
    i = 0
    fixed = ladder_scenarios()
    for sc in fixed:
        i += 1
        seen.add(json.dumps(sc, sort_keys=True))
        msg = run_check(sc)
        if msg:
            return {"violation": True, "input": sc, "detail": msg, "evaluations": i, "distinct": len(seen)}
    for _ in range(n_random):
        sc = gen(rnd, big=budget != "quick")
        i += 1
        seen.add(json.dumps(sc, sort_keys=True))
        msg = run_check(sc)
        if msg:
            return {"violation": True, "input": sc, "detail": msg, "evaluations": i, "distinct": len(seen)}
    return {"violation": False, "evaluations": i, "distinct": len(seen),
            "scope": f"`asphalt run` command lines against a reference model: all {len(fixed)} combinations of 9 service layouts x --service x "
                     f"ASPHALT_SERVICE (absent / existing / default / missing), plus {n_random} random scenarios of 0-{4 if budget != 'quick' else 3} YAML "
                     f"files with overlapping nested keys (dotted keys, lists, nulls, !Env/!TextFile/!BinaryFile), 0-{4 if budget != 'quick' else 3} "
                     "--set overrides (nested, escaped and unescaped dots, YAML-typed values, into services), services spread over files, "
                     "both selectors, random option order"}


def replay(sc):
    msg = run_check(sc)
    return bool(msg), msg or "run_application received exactly the documented configuration (or nothing was started, as documented)"


if __name__ == "__main__":
    main(search, replay)
