"""Shared helpers for native witnesses (run under /venv/bin/python against /repo/src)."""
import sys, os
sys.path.insert(0, os.environ.get("VERIF_REPO_SRC", "/repo/src"))
import anyio

def run(main, backend=None):
    backend = backend or os.environ.get("VERIF_BACKEND", "asyncio")
    return anyio.run(main, backend=backend)

def verdict(ok, msg):
    print(("HOLDS: " if ok else "VIOLATED: ") + msg)
    sys.exit(0 if ok else 1)
