# C09: all_task_handles() is exactly the set of spawned, unfinished tasks
from _common import *
from asphalt.core import Context, start_background_task_factory
async def main():
    async with Context():
        async with Context():
            factory = await start_background_task_factory()
        async def f(): pass
        raised = []
        try:
            factory.start_task_soon(f)
        except RuntimeError as e:
            raised.append("soon")
        try:
            await factory.start_task(f)
        except RuntimeError as e:
            raised.append("start")
        handles = factory.all_task_handles()
    verdict(not handles, f"spawn failures={raised} but all_task_handles()={handles!r}")
run(main)
