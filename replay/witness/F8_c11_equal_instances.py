# C11: distinct (but equal) instances never share a bound signal
from _common import *
from dataclasses import dataclass
from asphalt.core import Event, Signal
@dataclass(frozen=True)
class S:
    x: int
    sig = Signal(Event)
a, b = S(1), S(1)
verdict(a.sig is not b.sig, f"S(1).sig is S(1).sig -> {a.sig is b.sig}")
