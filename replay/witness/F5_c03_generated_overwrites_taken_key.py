# C03/C04: a multi-type factory product must not replace a resource already registered under one of its types
from _common import *
from asphalt.core import Context
async def main():
    sentinel = object()
    async with Context() as parent:
        parent.add_resource_factory(lambda: "generated", types=[str, object])
        async with Context() as child:
            child.add_resource(sentinel, types=[object])
            first = child.get_resource_nowait(object)
            child.get_resource_nowait(str)
            second = child.get_resource_nowait(object)
            allobj = child.get_resources(object)
    verdict(first is sentinel and second is sentinel and allobj == {"default": sentinel},
            f"first lookup sentinel={first is sentinel}, after generation lookup={second!r}, get_resources(object)={allobj!r}")
run(main)
