# C03: add_resource that raises because of an invalid teardown callback registers nothing
from _common import *
from asphalt.core import Context
async def main():
    async with Context() as ctx:
        events = []
        async with ctx.resource_added.stream_events() as stream:
            try:
                ctx.add_resource("v", teardown_callback=42)
                raised = None
            except BaseException as e:
                raised = type(e).__name__
            after = ctx.get_resource_nowait(str, optional=True)
            ncb = len(ctx._teardown_callbacks)
        ctx._teardown_callbacks.clear()
    verdict(raised is not None and after is None and ncb == 0, f"raised={raised} lookup after failed add={after!r} teardown callbacks={ncb}")
run(main)
