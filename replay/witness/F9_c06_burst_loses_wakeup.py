# C06: a waiter must be released by a matching publication even after a burst of non-matching ones
from _common import *
import warnings
from asphalt.core import Component, Context, start_component, add_resource, get_resource
N = int(os.environ.get("VERIF_BURST", "60"))
class A(Component):
    async def start(self):
        self.got = await get_resource(str, "wanted")
class B(Component):
    async def start(self):
        await anyio.sleep(0.05)   # let A subscribe
        for i in range(N):
            add_resource(i, f"n{i}")
        add_resource("the one", "wanted")
class Root(Component):
    def __init__(self):
        self.add_component("a", A); self.add_component("b", B)
async def main():
    with warnings.catch_warnings():
        warnings.simplefilter("ignore")
        async with Context():
            try:
                await start_component(Root, timeout=1)
                ok, msg = True, "waiter released"
            except TimeoutError:
                ok, msg = False, f"waiter never released after {N} non-matching + 1 matching publication in one burst (TimeoutError)"
    verdict(ok, msg)
run(main)
