# C11: two Signal attributes of one instance must be distinct channels
from _common import *
from asphalt.core import Event, Signal
class S:
    a = Signal(Event)
    b = Signal(Event)
async def main():
    s = S()
    got_a = []
    async with s.a.stream_events() as stream:
        s.b.dispatch(Event())
        s.a.dispatch(Event())
        with anyio.move_on_after(0.2):
            async for ev in stream:
                got_a.append(ev.topic)
                if len(got_a) == 2: break
    ok = (s.a is not s.b) and s.a._topic == "a" and s.b._topic == "b" and got_a == ["a"] and s.a is s.a
    verdict(ok, f"s.a is s.b={s.a is s.b} topics={s.a._topic},{s.b._topic} events seen by subscriber of a={got_a}")
run(main)
