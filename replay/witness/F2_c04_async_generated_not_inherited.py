# C04: a resource generated through the async lookup must not be inherited by later child contexts
from _common import *
from asphalt.core import Context
async def main():
    calls = []
    def factory():
        calls.append(1); return f"gen{len(calls)}"
    async with Context() as parent:
        parent.add_resource_factory(factory, types=[str])
        v1 = await parent.get_resource(str)
        async with Context() as child:
            v2 = await child.get_resource(str)
    verdict(v1 != v2 and len(calls) == 2, f"parent got {v1!r}, child got {v2!r}, factory calls={len(calls)}")
run(main)
