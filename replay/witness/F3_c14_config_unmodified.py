# C14: start_component leaves the configuration object unmodified
from _common import *
import copy
from asphalt.core import Component, Context, start_component
class Leaf(Component):
    pass
class Mid(Component):
    def __init__(self, y=0): self.y = y
class Root(Component):
    pass
async def main():
    cfg = {"components": {"mid": {"type": Mid, "y": 2, "components": {"leaf": {"type": Leaf}}}}}
    before = copy.deepcopy(cfg)
    async with Context():
        await start_component(Root, cfg)
    verdict(cfg == before, f"config after start_component: {cfg!r}")
run(main)
