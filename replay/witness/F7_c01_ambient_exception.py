# C01: pass_exception callback receives None after a clean exit, even inside an except block
from _common import *
from asphalt.core import Context
async def main():
    seen = []
    try:
        raise KeyError("outer")
    except KeyError:
        async with Context() as c:
            c.add_teardown_callback(seen.append, True)
    verdict(seen == [None], f"pass_exception callback received {seen!r} after a clean exit")
run(main)
