from _common import *
from asphalt.core import Context
async def main():
    sentinel = object()
    async with Context() as parent:
        parent.add_resource_factory(lambda: "generated", types=[str, object])
        async with Context() as child:
            child.add_resource(sentinel, types=[object])
            first = await child.get_resource(object)
            await child.get_resource(str)
            second = await child.get_resource(object)
    verdict(first is sentinel and second is sentinel, f"first sentinel={first is sentinel}, after async generation lookup={second!r}")
run(main)
