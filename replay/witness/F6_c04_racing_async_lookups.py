# C04: lookups racing from concurrent tasks: factory called once, same object
from _common import *
from asphalt.core import Context
async def main():
    calls = []
    async def factory():
        calls.append(1); n = len(calls)
        await anyio.sleep(0.01)
        return f"gen{n}"
    got = []
    async with Context() as ctx:
        ctx.add_resource_factory(factory, types=[str])
        async def look():
            got.append(await ctx.get_resource(str))
        async with anyio.create_task_group() as tg:
            tg.start_soon(look); tg.start_soon(look)
        later = await ctx.get_resource(str)
    verdict(len(calls) == 1 and got[0] is got[1] is later, f"factory calls={len(calls)} results={got} later={later!r}")
run(main)
