"""Model-based native harness for the Context resource API (C02, C03, C04, C13, C18).

A random / enumerated program of context operations is run against the real asphalt code and against a
small reference model written from the property statements; every divergence is tagged with the property
whose clause it breaks.  Deterministic given (seed, index)."""
import random
import warnings
import anyio
from hlib import main  # noqa: F401  (sets sys.path)
from asphalt.core import (Context, ResourceConflict, ResourceNotFound, AsyncResourceError, ResourceEvent)
from anyio import create_memory_object_stream, WouldBlock


class TA: pass
class TB: pass
class TC: pass
TYPES = [TA, TB, TC]
NAMES = ["default", "x"]
BAD_NAMES = ["", "a b", "a.b"]


class MCtx:
    """reference model of one context"""
    def __init__(self, parent=None):
        self.state = "inactive"
        self.parent = parent
        self.R = {}          # (type, name) -> [value, generated]
        self.F = {}          # (type, name) -> fid
        self.teardown = 0
        self.events = []
        self.calls = {}      # fid -> number of calls made through this context
        if parent is not None:
            self.R = {k: v for k, v in parent.R.items() if not v[1]}
            self.F = dict(parent.F)


class Violation(Exception):
    def __init__(self, prop, msg):
        super().__init__(msg)
        self.prop = prop
        self.msg = msg


class Runner:
    def __init__(self, program):
        self.program = program
        self.factories = {}       # fid -> (callable, is_async, types, name)
        self.log = []
        self.fcalls = {}          # fid -> total calls
        self.values = 0

    # ------------------------------------------------------------------ observation of the real context
    def snapshot(self, ctx):
        return (ctx._state.name, {k: id(v) for k, v in ctx._resources.items()}, {k: id(v) for k, v in ctx._resource_factories.items()},
                len(ctx._teardown_callbacks))

    def drain(self, rx):
        out = []
        while True:
            try:
                e = rx.receive_nowait()
            except WouldBlock:
                break
            out.append((tuple(e.resource_types), e.resource_name, e.is_factory))
        return out

    def check_view(self, ctx, m, where):
        """real tables == model tables (keys, values, generated flags)"""
        real = {k: (c.value, c.is_generated) for k, c in ctx._resources.items()}
        model = {k: (v[0], v[1]) for k, v in m.R.items()}
        if set(real) != set(model):
            raise Violation("C02", f"{where}: visible resource keys {sorted(map(str, real))} != expected {sorted(map(str, model))}")
        for k in real:
            if real[k][0] is not model[k][0]:
                raise Violation("C03", f"{where}: key {k} resolves to a different object than before / than expected")
            if real[k][1] != model[k][1]:
                raise Violation("C04", f"{where}: key {k} generated-flag {real[k][1]} != expected {model[k][1]}")
        if set(ctx._resource_factories) != set(m.F):
            raise Violation("C02", f"{where}: visible factory keys differ from expected")
        for t in TYPES:
            got = ctx.get_resources(t)
            want = {n: v[0] for (tt, n), v in m.R.items() if tt is t}
            if set(got) != set(want) or any(got[n] is not want[n] for n in got):
                raise Violation("C02", f"{where}: get_resources({t.__name__}) = {got!r} disagrees with keyed lookups {want!r}")

    # ------------------------------------------------------------------ program execution
    async def run(self):
        await self.block(self.program, None, None, [])

    async def block(self, ops, ctx, m, live):
        """ops executed inside context ctx (None = outside any context)"""
        for op in ops:
            kind = op[0]
            if kind == "child":
                await self.child(op[1], ctx, m, live)
            elif kind == "child_raising":
                await self.child(op[1], ctx, m, live, raising=True)
            elif kind == "reenter":
                before = self.snapshot(ctx)
                try:
                    await ctx.__aenter__()
                except RuntimeError:
                    pass
                else:
                    raise Violation("C13", "an open context could be entered a second time")
                if self.snapshot(ctx) != before:
                    raise Violation("C13", f"rejected re-entry changed the context: {before} -> {self.snapshot(ctx)}")
            elif kind == "unentered":
                c = Context()
                mm = MCtx(m)
                await self.ops_in_state(c, mm, "never entered")
            else:
                await self.step(op, ctx, m, live, "open")

    async def child(self, ops, parent, pm, live, raising=False):
        ctx = Context()
        m = MCtx(pm)
        tx, rx = create_memory_object_stream(10000)
        closing_ops = [o for o in ops if o[0] == "at_teardown"]
        ops = [o for o in ops if o[0] != "at_teardown"]
        live_entry = (ctx, m, rx)
        pending = None

        async def body():
            async with ctx:
                m.state = "open"
                self.check_view(ctx, m, "after entering")
                live.append(live_entry)
                if raising:
                    def boom():
                        raise RuntimeError("teardown-boom")
                    ctx.add_teardown_callback(boom)
                if closing_ops:
                    async def during_teardown():
                        m.state = "closing"
                        if not ctx.closed:
                            raise Violation("C13", "closed is False inside a teardown callback")
                        for o in closing_ops[0][1]:
                            await self.step(o, ctx, m, live, "closing")
                    ctx.add_teardown_callback(during_teardown)
                    m.teardown += 1
                if ctx.closed:
                    raise Violation("C13", "closed is True before teardown began")
                await self.block(ops, ctx, m, live)

        with ctx.resource_added._subscribe(tx):
            try:
                await body()
            except BaseExceptionGroup as g:
                if raising and "teardown-boom" in repr(g) and "Violation" not in repr(g):
                    pending = None
                else:
                    pending = g
            except BaseException as e:
                pending = e
        if live_entry in live:
            live.remove(live_entry)
        if pending is not None:
            raise pending
        m.state = "closed"
        if not ctx.closed:
            raise Violation("C13", "context not closed after the block was left")
        await self.ops_in_state(ctx, m, "closed (teardown raised)" if raising else "closed")

    async def ops_in_state(self, ctx, m, label):
        """every operation must raise RuntimeError and change nothing (never entered / closed)"""
        before = self.snapshot(ctx)
        tries = [
            ("add_resource", lambda: ctx.add_resource(object(), "x", [TA])),
            ("add_resource_factory", lambda: ctx.add_resource_factory(lambda: TA(), "x", types=[TA])),
            ("get_resource_nowait", lambda: ctx.get_resource_nowait(TA, "x", optional=True)),
            ("add_teardown_callback", lambda: ctx.add_teardown_callback(lambda: None)),
        ]
        for name, f in tries:
            try:
                f()
            except RuntimeError:
                pass
            except BaseException as e:
                raise Violation("C13", f"{name} on a {label} context raised {type(e).__name__}, expected RuntimeError")
            else:
                raise Violation("C13", f"{name} on a {label} context did not raise")
            if self.snapshot(ctx) != before:
                raise Violation("C13", f"{name} on a {label} context changed it")
        try:
            await ctx.get_resource(TA, "x", optional=True)
        except RuntimeError:
            pass
        else:
            raise Violation("C13", f"get_resource on a {label} context did not raise RuntimeError")
        if label == "closed":
            try:
                await ctx.__aenter__()
            except RuntimeError:
                pass
            else:
                raise Violation("C13", "a closed context could be entered again")
            if self.snapshot(ctx) != before:
                raise Violation("C13", "re-entering a closed context changed it")

    def mkfactory(self, is_async, types, name):
        fid = len(self.factories)
        runner = self

        def sync_factory():
            runner.fcalls[fid] = runner.fcalls.get(fid, 0) + 1
            return types[0]()

        async def async_factory():
            runner.fcalls[fid] = runner.fcalls.get(fid, 0) + 1
            await anyio.sleep(0)
            return types[0]()
        f = async_factory if is_async else sync_factory
        self.factories[fid] = (f, is_async, tuple(types), name)
        return fid

    async def step(self, op, ctx, m, live, phase):
        kind = op[0]
        where = f"{op!r} in a {phase} context"
        others_before = [(c, self.snapshot(c)) for (c, mm, rx) in live if c is not ctx]
        before = self.snapshot(ctx)
        rx = next((r for (c, mm, r) in live if c is ctx), None)
        if rx is not None:
            self.drain(rx)
        expected_events = []
        if kind == "add":
            _, types, name, value_none, bad_td, explicit_types = op
            value = None if value_none else types[0]()
            td = 42 if bad_td else None
            valid = (not value_none) and name not in BAD_NAMES and not bad_td
            conflict = any((t, name) in m.R for t in types)
            try:
                if explicit_types:
                    ctx.add_resource(value, name, types, teardown_callback=td)
                else:
                    ctx.add_resource(value, name, teardown_callback=td)
                    types = [type(value)]
                    conflict = (type(value), name) in m.R
                raised = None
            except BaseException as e:
                raised = e
            if valid and not conflict:
                if raised is not None:
                    raise Violation("C03", f"{where}: unexpected {type(raised).__name__}: {raised}")
                for t in types:
                    m.R[(t, name)] = [value, False]
                expected_events.append((tuple(types), name, False))
            else:
                if raised is None:
                    raise Violation("C03", f"{where}: should have failed (valid={valid} conflict={conflict})")
                if valid and conflict and not isinstance(raised, ResourceConflict):
                    raise Violation("C03", f"{where}: conflict raised {type(raised).__name__}, expected ResourceConflict")
                if self.snapshot(ctx) != before:
                    raise Violation("C03", f"{where}: failed add_resource changed the context: {before} -> {self.snapshot(ctx)}")
        elif kind == "factory":
            _, types, name, is_async = op
            conflict = any((t, name) in m.F for t in types)
            fid = self.mkfactory(is_async, types, name)
            try:
                ctx.add_resource_factory(self.factories[fid][0], name, types=types)
                raised = None
            except BaseException as e:
                raised = e
            ok = phase == "open" and name not in BAD_NAMES and not conflict
            if ok:
                if raised is not None:
                    raise Violation("C03", f"{where}: unexpected {type(raised).__name__}: {raised}")
                for t in types:
                    m.F[(t, name)] = fid
                expected_events.append((tuple(types), name, True))
            else:
                if raised is None:
                    raise Violation("C13" if phase != "open" else "C03", f"{where}: should have failed")
                if phase != "open" and not isinstance(raised, RuntimeError):
                    raise Violation("C13", f"{where}: raised {type(raised).__name__}, expected RuntimeError")
                if phase == "open" and name not in BAD_NAMES and conflict and not isinstance(raised, ResourceConflict):
                    raise Violation("C03", f"{where}: raised {type(raised).__name__}, expected ResourceConflict")
                if self.snapshot(ctx) != before:
                    raise Violation("C03", f"{where}: failed add_resource_factory changed the context")
        elif kind == "get":
            _, t, name, optional, use_async = op
            key = (t, name)
            try:
                if use_async:
                    got = await ctx.get_resource(t, name, optional=optional)
                else:
                    got = ctx.get_resource_nowait(t, name, optional=optional)
                raised = None
            except BaseException as e:
                raised, got = e, None
            if key in m.R:
                if raised is not None or got is not m.R[key][0]:
                    raise Violation("C03", f"{where}: lookup of an existing pair returned {got!r}/{raised!r}, expected the stored object")
            elif key in m.F:
                fid = m.F[key]
                f, is_async, ftypes, fname = self.factories[fid]
                if is_async and not use_async:
                    if not isinstance(raised, AsyncResourceError):
                        raise Violation("C04", f"{where}: async factory through the sync API gave {got!r}/{raised!r}, expected AsyncResourceError")
                    if self.snapshot(ctx) != before:
                        raise Violation("C04", f"{where}: AsyncResourceError but the context changed")
                    # the factory was called (its coroutine is closed): not counted as a generation
                    self.fcalls[fid] = self.fcalls.get(fid, 0)
                else:
                    if raised is not None:
                        raise Violation("C04", f"{where}: generation raised {raised!r}")
                    m.calls[fid] = m.calls.get(fid, 0) + 1
                    free = tuple(tt for tt in ftypes if (tt, fname) not in m.R)
                    for tt in free:
                        m.R[(tt, fname)] = [got, True]
                    expected_events.append((free, name, False))
                    if key not in m.R or m.R[key][0] is not got:
                        raise Violation("C04", f"{where}: generated object is not registered under the requested pair")
            else:
                if optional:
                    if raised is not None or got is not None:
                        raise Violation("C03", f"{where}: optional miss gave {got!r}/{raised!r}")
                elif not isinstance(raised, ResourceNotFound):
                    raise Violation("C03", f"{where}: miss gave {got!r}/{raised!r}, expected ResourceNotFound")
                if self.snapshot(ctx) != before:
                    raise Violation("C03", f"{where}: a missing lookup changed the context")
        # ---- after every step: this context matches the model, nobody else changed, events are exact
        self.check_view(ctx, m, f"after {where}")
        for (c, snap) in others_before:
            if self.snapshot(c) != snap:
                raise Violation("C02", f"{where}: another context (parent / sibling) changed")
        if rx is not None:
            ev = self.drain(rx)
            if ev != expected_events:
                raise Violation("C18", f"{where}: resource_added events {ev!r}, expected {expected_events!r}")
            for (c, mm, r) in live:
                if c is not ctx:
                    other = self.drain(r)
                    if other:
                        raise Violation("C18", f"{where}: event {other!r} dispatched on another context")
        for fid, n in m.calls.items():
            pass


# ---------------------------------------------------------------------------------------------- generation

def gen_ops(rnd, depth, n):
    ops = []
    for _ in range(n):
        r = rnd.random()
        if r < 0.30:
            k = rnd.choice([1, 1, 2])
            types = rnd.sample(TYPES, k)
            name = rnd.choice(NAMES + NAMES + BAD_NAMES[:1] + [rnd.choice(BAD_NAMES)]) if rnd.random() < 0.2 else rnd.choice(NAMES)
            ops.append(("add", types, name, rnd.random() < 0.08, rnd.random() < 0.08, rnd.random() < 0.85))
        elif r < 0.48:
            k = rnd.choice([1, 2, 2])
            ops.append(("factory", rnd.sample(TYPES, k), rnd.choice(NAMES), rnd.random() < 0.4))
        elif r < 0.82:
            ops.append(("get", rnd.choice(TYPES), rnd.choice(NAMES), rnd.random() < 0.4, rnd.random() < 0.5))
        elif r < 0.94 and depth > 0:
            sub = gen_ops(rnd, depth - 1, rnd.randint(1, 5))
            if rnd.random() < 0.4:
                sub.append(("at_teardown", gen_ops(rnd, 0, rnd.randint(1, 3))))
            ops.append(("child_raising" if rnd.random() < 0.2 else "child", sub))
        elif r < 0.97:
            ops.append(("reenter",))
        elif depth > 0:
            ops.append(("unentered",))
    return ops


def gen_program(seed, index):
    rnd = random.Random(seed * 1000003 + index)
    body = gen_ops(rnd, 2, rnd.randint(2, 7))
    return [("child", body)]


def run_program(program, props):
    """-> (violated_prop or None, message)"""
    r = Runner(program)
    with warnings.catch_warnings():
        warnings.simplefilter("ignore")
        try:
            anyio.run(r.run)
        except Violation as v:
            return v.prop, v.msg
        except BaseExceptionGroup as g:
            def find(x):
                if isinstance(x, Violation):
                    return x
                for y in getattr(x, "exceptions", ()):
                    r_ = find(y)
                    if r_ is not None:
                        return r_
                return None
            v = find(g)
            if v is not None:
                return v.prop, v.msg
            return "C13", f"unexpected exception group from the scenario: {g!r}"
        except Exception as e:
            return "C13", f"scenario crashed: {type(e).__name__}: {e}"
    return None, "ok"


async def _directed_reentrant(use_async):
    """A factory declared for two types publishes the second one itself (a plain add_resource on the requesting context) while it
    generates: the generation event must then announce exactly the keys the product was stored under - the requested type only.
    Returns a list of (property, message)."""
    from asphalt.core import current_context

    class DA:
        pass

    class DB:
        pass
    out = []
    async with Context() as ctx:
        pub = DB()

        def fac():
            current_context().add_resource(pub, types=[DB])
            return DA()

        async def afac():
            current_context().add_resource(pub, types=[DB])
            await anyio.sleep(0)
            return DA()
        tx, rx = create_memory_object_stream(100)
        with ctx.resource_added._subscribe(tx):
            ctx.add_resource_factory(afac if use_async else fac, types=[DA, DB])
            got = (await ctx.get_resource(DA)) if use_async else ctx.get_resource_nowait(DA)
            evs = []
            while True:
                try:
                    e = rx.receive_nowait()
                except WouldBlock:
                    break
                evs.append((tuple(e.resource_types), e.is_factory))
        stored = tuple(t for t in (DA, DB) if (t, "default") in ctx._resources and ctx._resources[(t, "default")].value is got)
        want = [((DA, DB), True), ((DB,), False), (stored, False)]
        if evs != want:
            out.append(("C18", f"re-entrant factory ({'async' if use_async else 'sync'} lookup): events {evs!r}, but the product is stored under {stored!r}"))
        if ctx._resources[(DB, "default")].value is not pub:
            out.append(("C03", "re-entrant factory: the resource published during generation was replaced by the product"))
        cont = ctx._resources[(DA, "default")]
        if tuple(cont.types) != stored:
            out.append(("C04", f"re-entrant factory: container types {tuple(cont.types)!r} differ from the keys it is stored under {stored!r}"))
    return out


def directed(prop):
    """the directed scenarios of this property: returns (input, message) of the first one that fails, or None"""
    for use_async in (False, True):
        try:
            res = anyio.run(_directed_reentrant, use_async)
        except BaseException:               # a scenario that cannot run on this tree decides nothing; the random search still runs
            res = []
        for (p, msg) in res:
            if p == prop:
                return {"directed": "reentrant-factory", "use_async": use_async}, f"[{p}] {msg}"
    return None


def make_harness(prop):
    def search(seed, budget):
        n = 3000 if budget == "quick" else 25000
        seen = set()
        d = directed(prop)
        if d is not None:
            return {"violation": True, "input": d[0], "detail": d[1], "evaluations": 1, "distinct": 1}
        for i in range(n):
            prog = gen_program(seed, i)
            seen.add(repr(prog))
            p, msg = run_program(prog, [prop])
            if p is not None:
                # a divergence tagged with another property is still a real divergence: report it under its own tag
                if p == prop or True:
                    return {"violation": p == prop, "input": {"seed": seed, "index": i}, "detail": f"[{p}] {msg}",
                            "evaluations": i + 1, "distinct": len(seen), "other_property": None if p == prop else p} if p == prop else \
                        _continue_other(prop, seed, i, n, seen, p, msg)
        return {"violation": False, "evaluations": n, "distinct": len(seen),
                "scope": "random programs of add_resource / add_resource_factory / lookups / nested child contexts / operations during teardown, "
                         "before entry and after close; depth <= 3, <= 7 ops per block, 3 types, 2 names; plus 2 directed scenarios (a factory that publishes "
                         "another of its own types while generating, sync and async lookup)"}

    def _continue_other(prop, seed, start, n, seen, p0, msg0):
        # keep searching for a divergence tagged with *this* property; remember that another property diverged
        for i in range(start + 1, n):
            prog = gen_program(seed, i)
            seen.add(repr(prog))
            p, msg = run_program(prog, [prop])
            if p == prop:
                return {"violation": True, "input": {"seed": seed, "index": i}, "detail": f"[{p}] {msg}", "evaluations": i + 1, "distinct": len(seen)}
        return {"violation": False, "evaluations": n, "distinct": len(seen), "note": f"divergence tagged {p0} seen: {msg0}",
                "scope": "random context programs (see ctx_model.py)"}

    def replay(inp):
        if "directed" in inp:
            res = [(p, m) for (p, m) in anyio.run(_directed_reentrant, inp["use_async"]) if p == prop]
            return bool(res), "; ".join(f"[{p}] {m}" for (p, m) in res) or "directed scenario behaves as specified"
        p, msg = run_program(gen_program(inp["seed"], inp["index"]), [prop])
        return p == prop, f"[{p}] {msg}"
    return search, replay
