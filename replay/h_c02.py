from ctx_model import make_harness
from hlib import main
if __name__ == "__main__":
    main(*make_harness("C02"))
