"""C07 harness: see h_comp.py (random component trees against the real start_component)."""
from hlib import main
import h_comp
search, replay = h_comp.make_harness("C07")
if __name__ == "__main__":
    main(search, replay)
