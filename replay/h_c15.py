"""C15 harness: run_application - every ending tears down the root context and exits as documented.

Random applications (a CLI or plain root component with up to 4 nested child components that register teardown callbacks on the
root context by every route and start service tasks) are ended in every documented way; the observed outcome of run_application()
and the log of teardown callbacks are compared with the statement of C15.

run_application() owns the event loop and the process' signal handling, so scenarios are executed by a worker process
(`h_c15.py worker`, fed one JSON scenario per line); the parent enforces a per-scenario timeout and reports a worker that hangs or
is killed by a signal as a violation, hence the harness itself can never hang or die.
"""
import json
import os
import queue
import random
import signal
import subprocess
import sys
import threading

from hlib import main

import anyio  # noqa: E402

try:
    import trio  # noqa: F401
    HAVE_TRIO = True
except Exception:  # pragma: no cover
    HAVE_TRIO = False

STALL = 1.5          # "forever" for a component that stalls: always cut short on a correct tree
SIGNAL_WAIT = 1.0    # how long a component that raised a signal during start-up keeps waiting to be cancelled
RUN_WAIT = 2.0       # how long run() waits for a service task that is going to crash the application
SCENARIO_TIMEOUT = 10.0
LONG_TIMEOUT = 3     # start_timeout of scenarios that are not about the timeout

TD_KINDS = ["sync", "async", "async_cp", "passexc", "apassexc", "res", "ares", "ctd"]
OUT_OF_RANGE = [-1, -127, -128, 128, 129, 255, 256, 1000, 2 ** 31]
IN_RANGE = [1, 2, 3, 42, 64, 126, 127]
NON_INT = [["str", "x"], ["str", "0"], ["str", ""], ["float", 1.5], ["float", 0.0], ["float", 1.0], ["list", [0]], ["bytes", "1"]]


# --------------------------------------------------------------------------------------------------------------- generator

def all_nodes(node):
    yield node
    for ch in node["children"]:
        yield from all_nodes(ch)


def ancestors_or_self(root, nid):
    """ids on the path root..nid"""
    def walk(node, path):
        path = path + [node["id"]]
        if node["id"] == nid:
            return path
        for ch in node["children"]:
            r = walk(ch, path)
            if r:
                return r
        return None
    return walk(root, [])


def related(root, a, b):
    """a is b, an ancestor of b or a descendant of b"""
    return a in ancestors_or_self(root, b) or b in ancestors_or_self(root, a)


def sweep():
    """one forced choice per class of ending (and per boundary of the exit status range): the head of every search"""
    out = [{"cli": True, "kind": "run_result", "result": r} for r in
           [["none"], ["int", 0], ["int", 1], ["int", 2], ["int", 126], ["int", 127], ["int", 128], ["int", 129], ["int", -1], ["int", 255],
            ["int", 256], ["int", 1000]] + NON_INT]
    out.append({"cli": True, "kind": "run_raise"})
    for sig in ("SIGINT", "SIGTERM"):
        out.append({"cli": False, "kind": "signal_after", "sig": sig})
        for cli in (True, False):
            out.append({"cli": cli, "kind": "signal_startup", "sig": sig})
    for cli in (True, False):
        out += [{"cli": cli, "kind": k} for k in ("fail", "fail", "fail", "timeout", "svc_crash_startup", "svc_crash_after")]
    return out


def gen(rnd, force=None):
    """a random application and its ending; `force` fixes the class of the ending (see sweep()), everything else stays random"""
    force = force or {}
    sc = {"backend": "trio" if HAVE_TRIO and rnd.random() < 0.2 else "asyncio", "cli": force.get("cli", rnd.random() < 0.55),
          "start_timeout": rnd.choice([LONG_TIMEOUT, LONG_TIMEOUT, 10, None])}
    # ---- the component tree
    nodes = []

    def mk(depth):
        node = {"id": len(nodes), "depth": depth, "how": rnd.choice(["hard", "ext"]), "prepare": [], "start": [], "children": []}
        nodes.append(node)
        return node
    root = mk(0)
    for _ in range(rnd.choice([0, 1, 1, 2, 2, 3, 3, 4])):
        parent = rnd.choice([n for n in nodes if n["depth"] < 2])
        parent["children"].append(mk(parent["depth"] + 1))
    # ---- decorations: teardown callbacks by every route, checkpoints, harmless service tasks
    tags = [0]

    def td():
        tags[0] += 1
        return ["td", rnd.choice(TD_KINDS), tags[0]]
    for n in nodes:
        for ph in ("prepare", "start"):
            for _ in range(rnd.choice([0, 0, 1, 1, 2, 3])):
                r = rnd.random()
                if r < 0.55:
                    n[ph].append(td())
                elif r < 0.85:
                    n[ph].append(["cp", rnd.randint(1, 3)])
                else:
                    n[ph].append(["svc", rnd.choice(["idle", "finish", "idle_td"])])
    # ---- the ending
    kinds = (["run_result"] * 6 + ["run_raise"] * 2 + ["svc_crash_after"] * 2) if sc["cli"] else (["signal_after"] * 4 + ["svc_crash_after"] * 3)
    kinds += ["fail"] * 4 + ["timeout"] * 2 + ["signal_startup"] * 4 + ["svc_crash_startup"] * 2
    kind = force.get("kind", rnd.choice(kinds))
    end = {"kind": kind}
    sc["ending"] = end
    signame = force.get("sig", rnd.choice(["SIGINT", "SIGTERM"]))

    def place(node, ph, ops):
        i = rnd.randint(0, len(node[ph]))
        node[ph][i:i] = ops
    during_startup = kind in ("fail", "timeout", "signal_startup", "svc_crash_startup")
    if during_startup:
        e = rnd.choice(nodes)
        ph = rnd.choice(["prepare", "start"])
        end.update(node=e["id"], phase=ph)
        if kind == "fail":
            how = rnd.choice(["init", "raise", "raise", "raise", "svc_unstarted"])
            end.update(how=how, exc=rnd.choice(["Exception", "Exception", "BaseException"]))
            if how == "init":
                end["phase"] = "init"
            elif how == "raise":
                place(e, ph, [["fail", end["exc"]]])
            else:
                place(e, ph, [["svc", "unstarted"]])
        elif kind == "timeout":
            sc["start_timeout"] = rnd.choice([0.02, 0.03, 0.05])
            place(e, ph, [["stall"]])
        elif kind == "signal_startup":
            end.update(sig=signame, via=rnd.choice(["component", "component", "service"]), k=rnd.randint(0, 3))
            place(e, ph, [["signal", signame]] if end["via"] == "component" else [["svc", "actor"], ["stall"]])
        else:
            end.update(k=rnd.randint(0, 3))
            place(e, ph, [["svc", "actor"], ["stall"]])
        # a component in another branch that is still busy when the application ends
        others = [n for n in nodes if not related(root, n["id"], e["id"])]
        if others and end.get("how") != "init" and rnd.random() < 0.4:
            place(rnd.choice(others), rnd.choice(["prepare", "start"]), [["stall"]])
    # ---- the CLI part
    if sc["cli"]:
        run = {"ops": [], "result": ["none"], "wait": None}
        for _ in range(rnd.choice([0, 0, 1, 2])):
            run["ops"].append(td() if rnd.random() < 0.6 else ["cp", rnd.randint(1, 2)])
        if kind == "run_result":
            cls = rnd.choice(["none", "zero", "in", "in", "out", "out", "nonint", "nonint"])
            run["result"] = {"none": ["none"], "zero": ["int", 0], "in": ["int", rnd.choice([1, 127, rnd.choice(IN_RANGE), rnd.randint(1, 127)])],
                             "out": ["int", rnd.choice([-1, 128, rnd.choice(OUT_OF_RANGE), rnd.choice(OUT_OF_RANGE),
                                                        rnd.randint(128, 5000), -rnd.randint(1, 5000)])],
                             "nonint": rnd.choice(NON_INT)}[cls]
            run["result"] = force.get("result", run["result"])
            # a termination signal after start-up does not replace the result of run()
            r = rnd.random()
            if r < 0.15:
                end.update(sig=signame, via="service")
                run["wait"] = "acted"
            elif r < 0.3:
                end.update(sig=signame, via="run")
        elif kind == "run_raise":
            run["result"] = ["raise"]
        elif kind == "svc_crash_after":
            run["wait"] = "crash"
            run["result"] = rnd.choice([["none"], ["int", 0], ["int", 7]])
        else:
            # the application must end during start-up: a result that cannot be mistaken for the expected status 1
            run["result"] = rnd.choice([["none"], ["int", 0], ["int", 7], ["int", 127]])
        sc["run"] = run
    if kind in ("signal_after", "svc_crash_after") or end.get("via") == "service" and kind == "run_result":
        if kind == "signal_after":
            end["sig"] = signame
        place(rnd.choice(nodes), rnd.choice(["prepare", "start"]), [["svc", "actor"]])
    for n in nodes:
        del n["depth"]
    sc["tree"] = root
    return sc


def expected(sc):
    """-> list of acceptable outcomes: ["return"] | ["exit", n] | ["raise"] (the original exception propagates)"""
    end = sc["ending"]
    k = end["kind"]
    if k == "run_result":
        res = sc["run"]["result"]
        if res[0] == "none" or res == ["int", 0]:
            return [["return"]]
        if res[0] == "int" and 1 <= res[1] <= 127:
            return [["exit", res[1]]]
        return [["exit", 1]]
    if k in ("run_raise", "svc_crash_after"):
        return [["raise"]]
    if k == "signal_after":
        return [["return"]]
    if k == "svc_crash_startup":
        # both a start-up failure and a crash: the statement allows status 1 as well as the propagation of the exception
        return [["raise"], ["exit", 1]]
    return [["exit", 1]]     # fail, timeout, signal_startup


# --------------------------------------------------------------------------------------------------------------- worker side

LOG = []
STATE = {}


class Boom(Exception):
    pass


class BaseBoom(BaseException):
    pass


def _event(name):
    if STATE.get(name) is None:
        STATE[name] = anyio.Event()
    return STATE[name]


def _boom(kind, text):
    exc = (BaseBoom if kind == "BaseException" else Boom)(text)
    STATE["boom"] = exc
    return exc


def _install():
    """define the component classes (needs asphalt, which only the worker imports)"""
    from asphalt.core import (CLIApplicationComponent, Component, add_resource, add_teardown_callback, context_teardown,
                              start_service_task)

    @context_teardown
    async def ctd(tag):
        LOG.append(("reg", tag))
        yield
        LOG.append(("td", tag))
        await anyio.sleep(0)
        LOG.append(("td_end", tag))

    async def register(kind, tag):
        def sync_cb(*exc):
            LOG.append(("td", tag))

        async def async_cb(*exc):
            LOG.append(("td", tag))

        async def async_cp_cb():
            LOG.append(("td", tag))
            await anyio.sleep(0)
            await anyio.sleep(0)
            LOG.append(("td_end", tag))
        if kind == "ctd":
            await ctd(tag)
            return
        if kind == "sync":
            add_teardown_callback(sync_cb)
        elif kind == "async":
            add_teardown_callback(async_cb)
        elif kind == "async_cp":
            add_teardown_callback(async_cp_cb)
        elif kind == "passexc":
            add_teardown_callback(sync_cb, pass_exception=True)
        elif kind == "apassexc":
            add_teardown_callback(async_cb, True)
        elif kind == "res":
            add_resource(f"value{tag}", f"res{tag}", teardown_callback=sync_cb)
        elif kind == "ares":
            add_resource(f"value{tag}", f"res{tag}", teardown_callback=async_cp_cb)
        else:
            raise AssertionError(kind)
        LOG.append(("reg", tag))

    async def actor():
        end = STATE["sc"]["ending"]
        kind = end["kind"]
        if kind in ("signal_startup", "svc_crash_startup"):
            for _ in range(end.get("k", 0)):
                await anyio.sleep(0)
        else:
            await _event("started").wait()
            await anyio.sleep(0.005)
            await anyio.wait_all_tasks_blocked()
        LOG.append(("act", kind))
        if kind in ("svc_crash_startup", "svc_crash_after"):
            raise _boom("Exception", "service task crashed")
        signal.raise_signal(getattr(signal, end["sig"]))
        if kind == "run_result":
            await anyio.sleep(0.005)
            _event("acted").set()

    async def svc_idle():
        await anyio.sleep_forever()

    async def svc_idle_td():
        # a callback on the task's own context: not one of the root context
        add_teardown_callback(lambda: LOG.append(("task_td",)))
        await anyio.sleep_forever()

    async def svc_finish():
        await anyio.sleep(0)

    async def svc_unstarted(*, task_status):
        await anyio.sleep(0)
        raise _boom(STATE["sc"]["ending"].get("exc", "Exception"), "service task failed before it reported itself started")

    async def run_ops(ops, who):
        for op in ops:
            if op[0] == "cp":
                for _ in range(op[1]):
                    await anyio.sleep(0)
            elif op[0] == "td":
                await register(op[1], op[2])
            elif op[0] == "svc":
                func = {"idle": svc_idle, "idle_td": svc_idle_td, "finish": svc_finish, "actor": actor, "unstarted": svc_unstarted}[op[1]]
                await start_service_task(func, f"{op[1]} of {who}")
            elif op[0] == "fail":
                raise _boom(op[1], f"failure in {who}")
            elif op[0] == "stall":
                await anyio.sleep(STALL)
                STATE["survived"].append(f"{who} was still running {STALL} s after it began to stall")
            elif op[0] == "signal":
                LOG.append(("act", "signal_startup"))
                signal.raise_signal(getattr(signal, op[1]))
                await anyio.sleep(SIGNAL_WAIT)
                STATE["survived"].append(f"{who} was still running {SIGNAL_WAIT} s after it raised {op[1]}")
            else:
                raise AssertionError(op)

    class NodeMixin:
        def __init__(self, spec):
            self.spec = spec
            end = STATE["sc"]["ending"]
            if end.get("how") == "init" and end["node"] == spec["id"]:
                raise _boom(end["exc"], f"failure in __init__ of component {spec['id']}")
            for ch in spec["children"]:
                if ch["how"] == "hard":
                    self.add_component(f"c{ch['id']}", Node, **config_of(ch))

        async def prepare(self):
            await run_ops(self.spec["prepare"], f"prepare() of component {self.spec['id']}")

        async def start(self):
            await run_ops(self.spec["start"], f"start() of component {self.spec['id']}")
            if self.spec["id"] == 0:
                _event("started").set()

    class Node(NodeMixin, Component):
        pass

    class PlainRoot(NodeMixin, Component):
        pass

    class CLIRoot(NodeMixin, CLIApplicationComponent):
        async def run(self):
            sc = STATE["sc"]
            run = sc["run"]
            LOG.append(("run",))
            await run_ops(run["ops"], "run()")
            if sc["ending"].get("via") == "run":
                signal.raise_signal(getattr(signal, sc["ending"]["sig"]))
                await anyio.sleep(0.005)
            if run["wait"] == "acted":
                with anyio.move_on_after(RUN_WAIT):
                    await _event("acted").wait()
            elif run["wait"] == "crash":
                await anyio.sleep(RUN_WAIT)
                STATE["survived"].append(f"run() was still running {RUN_WAIT} s after start-up although a service task crashed")
            res = run["result"]
            if res[0] == "raise":
                raise _boom("Exception", "run() failed")
            return {"none": lambda: None, "int": lambda: res[1], "str": lambda: res[1], "float": lambda: res[1],
                    "list": lambda: list(res[1]), "bytes": lambda: res[1].encode()}[res[0]]()

    def config_of(node):
        cfg = {"spec": node}
        ext = {f"c{ch['id']}": {"type": Node, **config_of(ch)} for ch in node["children"] if ch["how"] == "ext"}
        if ext:
            cfg["components"] = ext
        return cfg

    return PlainRoot, CLIRoot, config_of


def contains(exc, target):
    if exc is target:
        return True
    return isinstance(exc, BaseExceptionGroup) and any(contains(e, target) for e in exc.exceptions)


def run_scenario(sc, classes):
    """run one application in this (main) thread; -> list of problems"""
    import warnings
    from asphalt.core import run_application
    PlainRoot, CLIRoot, config_of = classes
    del LOG[:]
    STATE.clear()
    STATE.update(sc=sc, boom=None, survived=[])
    with warnings.catch_warnings():
        warnings.simplefilter("ignore")
        try:
            run_application(CLIRoot if sc["cli"] else PlainRoot, config_of(sc["tree"]), backend=sc["backend"], logging=None,
                            start_timeout=sc["start_timeout"])
            out = ["return"]
            shown = "a plain return"
        except SystemExit as e:
            out = ["exit", e.code]
            shown = f"SystemExit({e.code!r})"
        except BaseException as e:
            out = ["raise"] if STATE["boom"] is not None and contains(e, STATE["boom"]) else ["other"]
            shown = f"the exception {e!r}" + ("" if out == ["raise"] else " (which is not and does not contain the original exception)")
    log = list(LOG)
    problems = []
    end = sc["ending"]
    # ---- outcome
    want = expected(sc)

    def same(o, w):
        return o[0] == w[0] and (o[0] != "exit" or (type(o[1]) is int and o[1] == w[1]))

    def show(w):
        return {"return": "a plain return (status 0)", "raise": "the original exception propagating"}.get(w[0]) or f"SystemExit({w[1]})"
    desc = describe(sc)
    if not any(same(out, w) for w in want):
        extra = f"; {STATE['survived'][0]}" if STATE["survived"] else ""
        problems.append(f"{desc}: run_application ended with {shown}, expected {' or '.join(show(w) for w in want)}{extra}")
    # ---- teardown: every registered callback invoked exactly once, in reverse order of registration, before the return
    regs = [ev[1] for ev in log if ev[0] == "reg"]
    tds = [ev[1] for ev in log if ev[0] == "td"]
    if tds != regs[::-1]:
        missing = [t for t in regs if t not in tds]
        dup = sorted({t for t in tds if tds.count(t) > 1})
        what = (f"callbacks {missing} never ran" if missing else f"callbacks {dup} ran more than once" if dup else "wrong order")
        problems.append(f"{desc}: teardown callbacks were registered on the root context in the order {regs} but those that had run when "
                        f"run_application ended with {shown} were {tds} ({what}; expected exactly {regs[::-1]})")
    elif end["kind"] not in ("svc_crash_startup", "svc_crash_after"):
        # the teardown is not cancelled: each callback (and its awaitable) completes before the next one starts
        seq = [ev for ev in log if ev[0] in ("td", "td_end")]
        for i, ev in enumerate(seq):
            if ev[0] == "td" and any(e == ("td_end", ev[1]) for e in seq) and (i + 1 >= len(seq) or seq[i + 1] != ("td_end", ev[1])):
                problems.append(f"{desc}: asynchronous teardown callback {ev[1]} had not completed before the next callback started")
        needs_end = {op[2] for n in all_nodes(sc["tree"]) for ph in ("prepare", "start") for op in n[ph]
                     if op[0] == "td" and op[1] in ("async_cp", "ares", "ctd")}
        needs_end |= {op[2] for op in sc.get("run", {}).get("ops", []) if op[0] == "td" and op[1] in ("async_cp", "ares", "ctd")}
        for t in regs:
            if t in needs_end and ("td_end", t) not in seq:
                problems.append(f"{desc}: asynchronous teardown callback {t} was started but had not completed when run_application ended")
    # ---- nothing of the application is left behind
    if end["kind"] in ("run_result", "run_raise") and ("run",) not in log:
        problems.append(f"{desc}: run() was never called although start-up succeeded")
    return problems


def describe(sc):
    end = sc["ending"]
    k = end["kind"]
    app = ("CLI" if sc["cli"] else "non-CLI") + f" application ({sc['backend']})"
    if k == "run_result":
        s = f"run() returns {sc['run']['result'][-1] if sc['run']['result'][0] != 'none' else None!r}"
        if "sig" in end:
            s += f" after {end['sig']} was raised (from {end['via']}) once start-up had finished"
        return f"{app}, {s}"
    if k == "run_raise":
        return f"{app}, run() raises"
    if k == "fail":
        return f"{app}, component {end['node']} fails in {end['phase']} ({end['how']}, {end['exc']})"
    if k == "timeout":
        return f"{app}, component {end['node']} stalls in {end['phase']}() with start_timeout={sc['start_timeout']}"
    if k == "signal_startup":
        return f"{app}, {end['sig']} raised by a {end['via']} in {end['phase']}() of component {end['node']} during start-up"
    if k == "signal_after":
        return f"{app}, {end['sig']} raised by a service task after start-up"
    if k == "svc_crash_startup":
        return f"{app}, service task started in {end['phase']}() of component {end['node']} crashes during start-up"
    return f"{app}, service task crashes after start-up"


def worker_main():
    import logging
    logging.disable(logging.CRITICAL)
    classes = _install()
    out = sys.stdout
    for line in sys.stdin:
        line = line.strip()
        if not line:
            continue
        sc = json.loads(line)
        try:
            problems = run_scenario(sc, classes)
        except BaseException as e:  # harness trouble must be visible, never silent
            problems = [f"scenario crashed: {type(e).__name__}: {e}"]
        out.write(json.dumps({"problems": problems}) + "\n")
        out.flush()


# --------------------------------------------------------------------------------------------------------------- parent side

class Worker:
    def __init__(self):
        self.proc = None

    def _spawn(self):
        self.proc = subprocess.Popen([sys.executable, os.path.abspath(__file__), "worker"], stdin=subprocess.PIPE, stdout=subprocess.PIPE,
                                     stderr=subprocess.DEVNULL, text=True, bufsize=1, cwd=os.path.dirname(os.path.abspath(__file__)))
        self.q = queue.Queue()

        def pump(proc=self.proc, q=self.q):
            for line in proc.stdout:
                q.put(line)
            q.put(None)
        threading.Thread(target=pump, daemon=True).start()

    def close(self):
        if self.proc is not None:
            try:
                self.proc.stdin.close()
            except Exception:
                pass
            try:
                self.proc.wait(timeout=2)
            except Exception:
                self.proc.kill()
                self.proc.wait()
            self.proc = None

    def check(self, sc):
        if self.proc is None or self.proc.poll() is not None:
            self._spawn()
        try:
            self.proc.stdin.write(json.dumps(sc) + "\n")
            self.proc.stdin.flush()
            line = self.q.get(timeout=SCENARIO_TIMEOUT)
        except queue.Empty:
            self.proc.kill()
            self.proc.wait()
            self.proc = None
            return [f"{describe(sc)}: run_application had neither returned nor raised after {SCENARIO_TIMEOUT} s (the application does not end)"]
        except (BrokenPipeError, OSError):
            line = None
        if line is None:
            rc = self.proc.wait()
            self.proc = None
            why = f"killed by signal {signal.Signals(-rc).name}" if rc < 0 else f"exited with status {rc}"
            return [f"{describe(sc)}: the process running the application was {why} instead of run_application returning or raising "
                    "(a termination signal was not handled by the runner, or the interpreter was terminated)"]
        try:
            return json.loads(line)["problems"]
        except Exception:
            return [f"scenario crashed: unreadable worker answer {line[:200]!r}"]


def search(seed, budget):
    rnd = random.Random(seed)
    n = 1000 if budget == "quick" else 25000
    seen = set()
    w = Worker()
    try:
        forced = sweep()
        for i in range(n):
            sc = gen(rnd, forced[i] if i < len(forced) else None)
            seen.add(json.dumps(sc, sort_keys=True))
            p = w.check(sc)
            if p:
                return {"violation": True, "input": sc, "detail": "; ".join(p[:3]), "evaluations": i + 1, "distinct": len(seen)}
    finally:
        w.close()
    return {"violation": False, "evaluations": n, "distinct": len(seen),
            "scope": "applications with a CLI or plain root and 0-4 child components (nested up to depth 2, hard-coded or configured) that "
                     "register 0-3 teardown callbacks per phase on the root context by every route (sync/async/pass_exception callbacks, resource "
                     "teardown callbacks, @context_teardown, also from run()) and start service tasks, ended by each run() result class (None, 0, "
                     "1..127, out of range, non-int, exception), a component failing in __init__/prepare/start (Exception or BaseException, or "
                     "a service task failing to start), a start-up timeout, SIGINT/SIGTERM raised by a component or service task during "
                     "start-up or by a service task or run() after start-up (once every task is blocked), or a service task crashing during/after "
                     "start-up; on asyncio"
                     + (" and trio" if HAVE_TRIO else "") + "; every search begins with one application per class of ending and per boundary of "
                     "the status range (0, 1, 126, 127, 128, -1, 255, ...); checked: outcome of run_application and the complete reversed "
                     "teardown log (invocation of every callback; completion too unless the teardown itself is cancelled by a crash)"}


def replay(sc):
    w = Worker()
    try:
        p = w.check(sc)
    finally:
        w.close()
    return bool(p), "; ".join(p[:3]) or f"{describe(sc)}: ended as documented with every teardown callback run once in reverse order"


if __name__ == "__main__":
    if len(sys.argv) > 1 and sys.argv[1] == "worker":
        worker_main()
    else:
        main(search, replay)
