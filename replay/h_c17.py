"""C17 harness: merge_config against an independent specification, on nested dictionaries (bounded)."""
import copy, itertools, random
from hlib import main
from asphalt.core import merge_config


def spec_merge(a, b):
    a = a or {}
    b = b or {}
    out = {}
    for k in list(a) + [k for k in b if k not in a]:
        if k in a and k in b and isinstance(a[k], dict) and isinstance(b[k], dict):
            out[k] = spec_merge(a[k], b[k])
        elif k in b:
            out[k] = b[k]
        else:
            out[k] = a[k]
    return out


def ids(d, acc=None):
    acc = acc if acc is not None else set()
    if isinstance(d, dict):
        acc.add(id(d))
        for v in d.values():
            ids(v, acc)
    return acc


def check(a, b):
    a0, b0 = copy.deepcopy(a), copy.deepcopy(b)
    r = merge_config(a, b)
    if a != a0 or b != b0:
        return f"argument modified: original {a0!r}->{a!r}, overrides {b0!r}->{b!r}"
    want = spec_merge(a0, b0)
    if r != want or type(r) is not dict:
        return f"merge_config({a0!r}, {b0!r}) = {r!r}, expected {want!r}"
    if isinstance(a, dict) and r is a or isinstance(b, dict) and r is b:
        return "result is one of the arguments"
    # dict/dict collisions must be fresh dictionaries at every depth (purity under later use)
    def fresh(rd, ad, bd):
        for k, v in rd.items():
            if isinstance(ad, dict) and isinstance(bd, dict) and isinstance(ad.get(k), dict) and isinstance(bd.get(k), dict):
                if v is ad[k] or v is bd[k]:
                    return f"nested merge result under {k!r} aliases an input dictionary"
                m = fresh(v, ad[k], bd[k])
                if m:
                    return m
        return None
    return fresh(r, a or {}, b or {})


LEAVES = [None, 0, "s", [1], {}]
KEYS = ["a", "b.c"]


def gen(depth):
    """all dictionaries over KEYS with leaves / nested dicts up to depth"""
    vals = list(LEAVES)
    if depth > 0:
        vals += [d for d in gen(depth - 1) if d]
    out = []
    for combo in itertools.product([None] + list(range(len(vals))), repeat=len(KEYS)):
        d = {}
        for k, c in zip(KEYS, combo):
            if c is not None:
                d[k] = copy.deepcopy(vals[c])
        out.append(d)
    return out


def search(seed, budget):
    rnd = random.Random(seed)
    space = gen(1) + [None]
    pairs = list(itertools.product(range(len(space)), repeat=2))
    if budget == "quick":
        rnd.shuffle(pairs)
        pairs = pairs[:4000]
    n = 0
    distinct = set()
    for i, j in pairs:
        a, b = copy.deepcopy(space[i]), copy.deepcopy(space[j])
        n += 1
        distinct.add((i, j))
        msg = check(a, b)
        if msg:
            return {"violation": True, "input": {"original": space[i], "overrides": space[j]}, "detail": msg,
                    "evaluations": n, "distinct": len(distinct)}
    # deeper random cases
    deep = gen(2) if budget == "thorough" else []
    for _ in range(len(deep) and 20000):
        a, b = copy.deepcopy(rnd.choice(deep)), copy.deepcopy(rnd.choice(deep))
        n += 1
        msg = check(a, b)
        if msg:
            return {"violation": True, "input": {"original": a, "overrides": b}, "detail": msg, "evaluations": n, "distinct": len(distinct)}
    return {"violation": False, "evaluations": n, "distinct": len(distinct),
            "scope": f"pairs of dicts over keys {KEYS}, leaves {LEAVES!r}, nesting depth 1 ({'all' if budget != 'quick' else 'sample of 4000'} of {len(space)**2} pairs)"}


def replay(inp):
    msg = check(copy.deepcopy(inp["original"]), copy.deepcopy(inp["overrides"]))
    return bool(msg), msg or "merge_config agrees with the specification on this input"


if __name__ == "__main__":
    main(search, replay)
