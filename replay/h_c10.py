"""C10 harness: events reach exactly the active subscribers, exactly once, in dispatch order."""
import random
import warnings
import anyio
from hlib import main
from asphalt.core import Event, Signal, stream_events, wait_event, SignalQueueFull


class Ev(Event):
    def __init__(self, n):
        self.n = n


class Src:
    a = Signal(Ev)
    b = Signal(Ev)


def gen(rnd):
    """a history: list of steps over 2 sources x 2 signals and up to 3 subscribers"""
    subs = []
    for i in range(rnd.randint(1, 3)):
        sigs = rnd.sample([(0, "a"), (0, "b"), (1, "a"), (1, "b")], rnd.randint(1, 2))
        subs.append({"signals": sigs, "filter": rnd.choice([None, "even", "odd"]), "qsize": rnd.choice([1, 2, 50]),
                     "leave": rnd.choice(["normal", "exception", "cancel"])})
    steps = []
    active = set()
    n = 0
    for _ in range(rnd.randint(4, 14)):
        r = rnd.random()
        cand = [i for i in range(len(subs)) if i not in active and ("done", i) not in steps]
        if r < 0.25 and cand:
            i = rnd.choice(cand)
            active.add(i)
            steps.append(("sub", i))
        elif r < 0.4 and active:
            i = rnd.choice(sorted(active))
            active.discard(i)
            steps.append(("unsub", i))
            steps.append(("done", i))
        elif r < 0.55 and active:
            steps.append(("consume", rnd.choice(sorted(active)), rnd.randint(1, 3)))
        else:
            steps.append(("dispatch", rnd.choice([0, 1]), rnd.choice(["a", "b"]), n))
            n += 1
    return {"subs": subs, "steps": [s for s in steps if s[0] != "done"]}


async def scenario(sc):
    problems = []
    srcs = [Src(), Src()]
    subs = sc["subs"]
    state = {}       # i -> dict(cm, stream, expected(list), received(list), qlen)
    filt = {None: None, "even": lambda e: e.n % 2 == 0, "odd": lambda e: e.n % 2 == 1}

    async def consume(i, k):
        st = state[i]
        for _ in range(k):
            if not st["expected_queue"]:
                break
            # next event that passes the filter (non-passing ones are skipped by the stream)
            passing = [e for e in st["expected_queue"] if st["pred"] is None or st["pred"](e)]
            if not passing:
                st["expected_queue"].clear()
                break
            with anyio.fail_after(1):
                ev = await st["stream"].__anext__()
            want = passing[0]
            idx = st["expected_queue"].index(want)
            del st["expected_queue"][: idx + 1]
            if ev is not want:
                problems.append(f"subscriber {i} received event #{ev.n}, expected #{want.n} (dispatch order / exactly once)")
            st["received"].append(ev)

    with warnings.catch_warnings(record=True) as wlog:
        warnings.simplefilter("always")
        for step in sc["steps"]:
            kind = step[0]
            if kind == "sub":
                i = step[1]
                if i in state:
                    continue
                sigs = [getattr(srcs[s], n) for (s, n) in subs[i]["signals"]]
                cm = stream_events(sigs, filt[subs[i]["filter"]], max_queue_size=subs[i]["qsize"])
                stream = await cm.__aenter__()
                state[i] = {"cm": cm, "stream": stream, "expected_queue": [], "received": [], "pred": filt[subs[i]["filter"]],
                            "sigs": subs[i]["signals"], "qsize": subs[i]["qsize"]}
            elif kind == "unsub":
                i = step[1]
                if i not in state:
                    continue
                st = state.pop(i)
                leave = subs[i]["leave"]
                try:
                    if leave == "exception":
                        await st["cm"].__aexit__(ValueError, ValueError("x"), None)
                    elif leave == "cancel":
                        with anyio.CancelScope() as scope:
                            scope.cancel()
                            try:
                                await anyio.sleep(0)
                            except BaseException as e:
                                await st["cm"].__aexit__(type(e), e, None)
                    else:
                        await st["cm"].__aexit__(None, None, None)
                except BaseException:
                    pass
            elif kind == "consume":
                if step[1] in state:
                    await consume(step[1], step[2])
            elif kind == "dispatch":
                _, s, name, n = step
                ev = Ev(n)
                nwarn = len([w for w in wlog if issubclass(w.category, SignalQueueFull)])
                try:
                    getattr(srcs[s], name).dispatch(ev)
                except BaseException as e:
                    problems.append(f"dispatch raised {type(e).__name__}: {e} because of a subscriber's state")
                    continue
                if ev.source is not srcs[s] or ev.topic != name or not isinstance(ev.time, float):
                    problems.append(f"event stamped with source={ev.source!r} topic={ev.topic!r} time={ev.time!r}")
                full = 0
                for i, st in state.items():
                    if [s, name] in [list(x) for x in st["sigs"]]:
                        if len(st["expected_queue"]) < st["qsize"]:
                            st["expected_queue"].append(ev)
                        else:
                            full += 1
                got = len([w for w in wlog if issubclass(w.category, SignalQueueFull)]) - nwarn
                if got != full:
                    problems.append(f"{got} SignalQueueFull warnings for {full} full subscriber queues")
        # drain everything that is still expected
        for i in list(state):
            await consume(i, 1000)
            st = state[i]
            # nothing more must be pending
            with anyio.move_on_after(0.01):
                extra = await st["stream"].__anext__()
                problems.append(f"subscriber {i} received an unexpected extra event #{extra.n}")
            await st["cm"].__aexit__(None, None, None)
    # wait_event: first matching event dispatched after the call began
    got = []

    async def waiter():
        got.append(await wait_event([srcs[0].a], lambda e: e.n >= 100))
    async with anyio.create_task_group() as tg:
        srcs[0].a.dispatch(Ev(100))          # before the call: must not be returned
        tg.start_soon(waiter)
        await anyio.wait_all_tasks_blocked()
        srcs[0].a.dispatch(Ev(5))
        srcs[0].a.dispatch(Ev(101))
        srcs[0].a.dispatch(Ev(102))
    if [e.n for e in got] != [101]:
        problems.append(f"wait_event returned {[e.n for e in got]}, expected the first matching event dispatched after the call (101)")
    return problems


def check(sc):
    try:
        return anyio.run(scenario, sc)
    except BaseException as e:
        return [f"scenario crashed: {type(e).__name__}: {e}"]


def search(seed, budget):
    rnd = random.Random(seed)
    n = 100 if budget == "quick" else 3000
    seen = set()
    for i in range(n):
        sc = gen(rnd)
        seen.add(repr(sc))
        p = check(sc)
        if p:
            return {"violation": True, "input": sc, "detail": "; ".join(p[:3]), "evaluations": i + 1, "distinct": len(seen)}
    return {"violation": False, "evaluations": n, "distinct": len(seen),
            "scope": "histories (4-14 steps) of subscribe / dispatch / consume / unsubscribe (normal, exception, cancelled) over 2 instances x 2 "
                     "signals, up to 3 subscribers with filters and queue sizes 1/2/50; wait_event ordering"}


def replay(sc):
    sc = {"subs": [{**s, "signals": [tuple(x) for x in s["signals"]]} for s in sc["subs"]], "steps": [tuple(x) for x in sc["steps"]]}
    p = check(sc)
    return bool(p), "; ".join(p[:3]) or "delivery is exact on this history"


if __name__ == "__main__":
    main(search, replay)
