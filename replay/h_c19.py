"""C19 harness: calling an @inject-decorated function == calling the original with explicit lookups in the current context.

A scenario is one or two dynamically generated functions (random signatures mixing ordinary, keyword-only and injected
parameters; typing.Optional / PEP 604 / Union / string forward references / `from __future__ import annotations` /
locally defined functions with local types / names defined only after decoration or only after some calls have already
been attempted), and either
  - "call": a chain of 1-3 nested contexts with static resources and (a)sync resource factories, and calls made directly,
    from nested contexts and from tasks spawned at an outer level, or
  - "component": calls made from the start() of a component (the current context is a ComponentContext, whose
    get_resource() waits for sibling components) while sibling components publish resources and decoys before or after.
    Only timing-independent lookups are generated there (optional / get_resource_nowait lookups of resources that are
    present beforehand or never, waiting lookups of resources that do get published).
Every call of the decorated function is compared with
  (1) the statement's right-hand side: the undecorated function called with get_resource / get_resource_nowait results
      obtained from the context current at call time (identity of every value), and
  (2) a small reference model of what is visible in that context (static object, product of which factory, nothing).
"reject" scenarios check the decoration-time rejection of positional-only / unannotated / uncalled markers.
Deterministic given (seed, budget)."""
import inspect
import random
import signal
import warnings
import anyio
from hlib import main
from asphalt.core import (AsyncResourceError, Component, Context, ResourceConflict, ResourceNotFound, add_resource,
                          add_resource_factory, current_context, get_resource, get_resource_nowait, inject, resource, start_component)
from typing import Optional, Union


class TA: pass
class TB(TA): pass
class TC: pass
TYPES = {"TA": TA, "TB": TB, "TC": TC}
NAMES = ["default", "x", "y"]
REQ_STYLES = ["plain", "str"]
OPT_STYLES = ["Optional", "pep604", "pep604r", "Union", "strOptional", "str604", "OptionalStr"]
STRING_STYLES = ["str", "strOptional", "str604"]
SCENARIO_TIMEOUT = 10


class Arg:
    """an ordinary argument value (identity is compared)"""
    def __init__(self, v):
        self.v = v

    def __repr__(self):
        return f"Arg({self.v})"


class HardTimeout(Exception):
    pass


def show(v):
    if v is None or isinstance(v, (Arg, int, str)):
        return repr(v)
    if hasattr(v, "sid"):
        return f"<static {type(v).__name__} #{v.sid}>"
    if hasattr(v, "fid"):
        return f"<{type(v).__name__} made by factory #{v.fid} (product {v.serial})>"
    if isinstance(v, dict):
        return "{" + ", ".join(f"{k}: {show(x)}" for k, x in v.items()) + "}"
    return repr(v)[:80]


# ---------------------------------------------------------------------------------------------------- source text
def ann_src(spec, p):
    style = p["ann"]
    if style is None:
        return None
    eager = p["type"]
    lazy = ("L_" + eager) if spec["late"] else eager
    if spec["future"]:
        eager = lazy                      # nothing is evaluated when the function is defined
    return {"plain": eager, "Optional": f"Optional[{eager}]", "pep604": f"{eager} | None", "pep604r": f"None | {eager}",
            "Union": f"Union[{eager}, None]", "str": f'"{lazy}"', "strOptional": f'"Optional[{lazy}]"',
            "str604": f'"{lazy} | None"', "OptionalStr": f'Optional["{lazy}"]'}[style]


def param_src(spec, p):
    if p["role"] == "ord":
        s = p["name"] + (": int" if p.get("annotated") else "")
        if p["default"] is not None:
            s += (" = " if p.get("annotated") else "=") + str(p["default"])
        return s
    if p.get("uncalled"):
        marker = "resource"
    elif p["rname"] is None:
        marker = "resource()"
    elif p.get("rkw"):
        marker = f"resource(name={p['rname']!r})"
    else:
        marker = f"resource({p['rname']!r})"
    ann = ann_src(spec, p)
    return f"{p['name']}={marker}" if ann is None else f"{p['name']}: {ann} = {marker}"


def signature_src(spec):
    parts = []
    po = [p for p in spec["params"] if p["kind"] == "po"]
    pk = [p for p in spec["params"] if p["kind"] == "pk"]
    kw = [p for p in spec["params"] if p["kind"] == "kw"]
    parts += [param_src(spec, p) for p in po]
    if po:
        parts.append("/")
    parts += [param_src(spec, p) for p in pk]
    if kw:
        parts.append("*")
    parts += [param_src(spec, p) for p in kw]
    if spec["varkw"]:
        parts.append("**extra")
    return ", ".join(parts)


def func_source(spec, idx, decorate=True):
    names = [p["name"] for p in spec["params"]]
    ret = ", ".join(f'"{n}": {n}' for n in names)
    if spec["varkw"]:
        ret += (", " if ret else "") + '"extra": dict(extra)'
    head = f"{'async ' if spec['async'] else ''}def f{idx}({signature_src(spec)}):"
    body = [f"    _ran.append({idx})", "    return {" + ret + "}"]
    lines = ["from __future__ import annotations"] if spec["future"] else []
    if spec["local"]:
        lines.append(f"def make{idx}(TA, TB, TC):")
        lines += ["    " + x for x in [head] + body]
        lines.append(f"    g{idx} = inject(f{idx})" if decorate else f"    g{idx} = None")
        lines.append(f"    return f{idx}, g{idx}")
        lines.append(f"f{idx}, g{idx} = make{idx}(*_T)")
    else:
        lines += [head] + body
        if decorate:
            lines.append(f"g{idx} = inject(f{idx})")
    return "\n".join(lines) + "\n"


def uses_late(spec):
    """some annotation refers to a name that does not exist when the decorator is applied"""
    return spec["late"] and any(p["role"] == "inj" and (spec["future"] or p["ann"] in STRING_STYLES + ["OptionalStr"])
                                for p in spec["params"])


def define_late(ns):
    for n, t in TYPES.items():           # forward references become resolvable only now
        ns["L_" + n] = t


def build(spec, idx, ran, decorate=True):
    """-> (namespace, source); the namespace holds f<idx> (original) and g<idx> (decorated)"""
    ns = {"Optional": Optional, "Union": Union, "resource": resource, "inject": inject, "_ran": ran, "__name__": f"c19gen{idx}"}
    if spec["local"]:
        ns["_T"] = (TA, TB, TC)          # the types are visible only as locals of the enclosing function
    else:
        ns.update(TYPES)
    src = func_source(spec, idx, decorate)
    exec(compile(src, f"<c19 f{idx}>", "exec"), ns)
    return ns, src


# ---------------------------------------------------------------------------------------------------- generation
def gen_func(rnd, defect=None):
    future = rnd.random() < 0.25
    local = rnd.random() < 0.3
    late = (not local) and rnd.random() < 0.35
    styles = [s for s in REQ_STYLES + OPT_STYLES if not (future and s in STRING_STYLES + ["OptionalStr"])]
    inj = []
    for j in range(rnd.choice([1, 1, 2, 2, 3])):
        optional = rnd.random() < 0.5
        style = rnd.choice([s for s in styles if (s in OPT_STYLES) == optional])
        inj.append({"role": "inj", "name": f"r{j}", "type": rnd.choice(["TA", "TA", "TB", "TC"]), "ann": style,
                    "rname": rnd.choice([None, None, "default", "x", "x", "y"]), "rkw": rnd.random() < 0.3})
    inj_kw = [p for p in inj if rnd.random() < 0.4]
    inj_pk = [p for p in inj if p not in inj_kw]
    po = [{"role": "ord", "name": "p0", "default": None}] if rnd.random() < 0.25 else []
    pk_req = [{"role": "ord", "name": f"a{i}", "default": None} for i in range(rnd.choice([0, 1, 1, 2]))]
    pk_def = inj_pk + [{"role": "ord", "name": f"d{i}", "default": 70 + i} for i in range(rnd.choice([0, 0, 1]))]
    rnd.shuffle(pk_def)
    kw = inj_kw + [{"role": "ord", "name": f"k{i}", "default": rnd.choice([None, 80 + i])} for i in range(rnd.choice([0, 0, 1, 2]))]
    rnd.shuffle(kw)
    if defect == "posonly":
        victim = rnd.choice(inj)
        pk_def = [p for p in pk_def if p is not victim]
        kw = [p for p in kw if p is not victim]
        po = po + [victim]
        for p in pk_req:                 # no parameter without a default may follow
            p["default"] = 60
    elif defect == "unannotated":
        rnd.choice(inj)["ann"] = None
    elif defect == "uncalled":
        victim = rnd.choice(inj)
        victim["uncalled"] = True
        if rnd.random() < 0.3:
            victim["ann"] = None
    for p in po:
        p["kind"] = "po"
    for p in pk_req + pk_def:
        p["kind"] = "pk"
    for p in kw:
        p["kind"] = "kw"
    params = po + pk_req + pk_def + kw
    for p in params:
        if p["role"] == "ord":
            p["annotated"] = rnd.random() < 0.3
    return {"async": rnd.random() < 0.5, "future": future, "local": local, "late": late, "params": params,
            "varkw": rnd.random() < 0.25}


def gen_args(rnd, spec, counter):
    def val():
        counter[0] += 1
        return counter[0]
    args, kwargs = [], {}
    by_kw = False
    for p in spec["params"]:
        if p["role"] != "ord":
            if p["kind"] == "pk":
                by_kw = True             # everything after an injected parameter has to be passed by keyword
            continue
        if p["kind"] == "po":
            args.append(val())
        elif p["kind"] == "pk":
            if p["default"] is not None and rnd.random() < 0.5:
                by_kw = True
                continue
            by_kw = by_kw or rnd.random() < 0.3
            if by_kw:
                kwargs[p["name"]] = val()
            else:
                args.append(val())
        else:
            if p["default"] is None or rnd.random() < 0.5:
                kwargs[p["name"]] = val()
    if spec["varkw"]:
        for i in range(rnd.choice([0, 1, 2])):
            kwargs[f"z{i}"] = val()
    return args, kwargs


def wanted_keys(funcs):
    out = []
    for f in funcs:
        for p in f["params"]:
            if p["role"] == "inj":
                out.append((p["type"], p["rname"] or "default"))
    return out


def gen_add(rnd, wanted):
    if rnd.random() < 0.85:
        t, n = rnd.choice(wanted)
        r = rnd.random()
        if r < 0.12:
            n = rnd.choice(NAMES)        # decoy: same type, maybe another name
        elif r < 0.2:
            t = rnd.choice(list(TYPES))
    else:
        t, n = rnd.choice(list(TYPES)), rnd.choice(NAMES)
    how = rnd.choice(["static"] * 5 + ["factory"] * 3 + ["afactory"] * 2)
    types = [t]
    if how == "static" and t in ("TA", "TB") and rnd.random() < 0.15:
        types = ["TA", "TB"]
    return ["add", how, types, n]


def gen_plain(rnd):
    funcs = [gen_func(rnd) for _ in range(rnd.choice([1, 1, 2]))]
    wanted = wanted_keys(funcs)
    counter = [0]

    def gen_call(level):
        fidx = rnd.randrange(len(funcs))
        via = None if rnd.random() < 0.6 else rnd.randint(0, level)
        args, kwargs = gen_args(rnd, funcs[fidx], counter)
        return ["call", fidx, via, rnd.choice(["sut_first", "oracle_first"]), args, kwargs]

    levels = []
    depth = rnd.choice([1, 2, 2, 3])
    for lv in range(depth):
        pre = [gen_add(rnd, wanted) if rnd.random() < 0.5 else gen_call(lv) for _ in range(rnd.randint(1, 4))]
        if lv == 0:
            pre = [gen_add(rnd, wanted) for _ in wanted if rnd.random() < 0.4] + pre
        post = [gen_add(rnd, wanted) if rnd.random() < 0.3 else gen_call(lv) for _ in range(rnd.randint(0, 2))]
        levels.append({"pre": pre, "post": post})
    if not any(op[0] == "call" for lv in levels for op in lv["pre"] + lv["post"]):
        levels[-1]["pre"].append(gen_call(depth - 1))
    # the names used by forward references come into existence right after decoration, or somewhere in the history
    define_at_build = rnd.random() < 0.5 or not any(uses_late(f) for f in funcs)
    if not define_at_build:
        lv = rnd.choice(levels)
        part = lv[rnd.choice(["pre", "pre", "post"])]
        part.insert(rnd.randint(0, len(part)), ["define"])
    return {"kind": "call", "funcs": funcs, "define_at_build": define_at_build, "levels": levels}


def gen_component(rnd):
    """the function is called from the start() of a component; sibling components publish resources before or after"""
    spec = gen_func(rnd)
    inj = [p for p in spec["params"] if p["role"] == "inj"]
    keys = []
    for p in inj:
        k = (p["type"], p["rname"] or "default")
        if k not in keys:
            keys.append(k)
    pre, later = [], []
    for k in keys:
        users = [p for p in inj if (p["type"], p["rname"] or "default") == k]
        may_wait = spec["async"] and all(p["ann"] not in OPT_STYLES for p in users)      # a non-optional lookup waits for it
        may_miss = not (spec["async"] and any(p["ann"] not in OPT_STYLES for p in users))  # ... and would wait forever
        state = rnd.choice(["pre"] * 2 + ["later"] * (3 if may_wait else 0) + ["never"] * (1 if may_miss else 0))
        how = rnd.choice(["static", "static", "factory", "afactory"])
        if state == "pre":
            pre.append(["add", how, [k[0]], k[1]])
        elif state == "later":
            later.append(["add", how, [k[0]], k[1]])
    nprov = rnd.choice([1, 2])
    providers = [{"delay": rnd.randint(0, 3), "adds": []} for _ in range(nprov)]
    free = [(t, n) for t in TYPES for n in NAMES if (t, n) not in keys]
    for op in later:
        pr = rnd.choice(providers)
        for _ in range(rnd.choice([0, 0, 1, 2])):   # decoys published before the awaited resource
            t, n = rnd.choice(free)
            pr["adds"].append(["add", rnd.choice(["static", "factory"]), [t], n])
            if rnd.random() < 0.5:
                pr["adds"].append(["sleep"])
        pr["adds"].append(op)
        if rnd.random() < 0.4:
            pr["adds"].append(["sleep"])
    counter = [0]
    calls = []
    for _ in range(rnd.choice([1, 1, 2])):
        args, kwargs = gen_args(rnd, spec, counter)
        calls.append(["call", 0, None, rnd.choice(["sut_first", "sut_first", "oracle_first"]), args, kwargs])
    return {"kind": "component", "funcs": [spec], "define_at_build": True, "pre": pre, "providers": providers,
            "caller": {"position": rnd.randint(0, nprov), "delay": rnd.randint(0, 2), "calls": calls},
            "later": [[op[2][0], op[3]] for op in later]}


def gen(rnd):
    r = rnd.random()
    if r < 0.1:
        return {"kind": "reject", "funcs": [gen_func(rnd, rnd.choice(["posonly", "unannotated", "uncalled"]))]}
    if r < 0.3:
        return gen_component(rnd)
    return gen_plain(rnd)


def systematic():
    """every annotation style x sync/async x definition mode x context state x parameter kind, one injected parameter"""
    out = []
    states = ["static", "factory", "afactory", "inherited_static", "inherited_factory", "missing", "other_name", "other_type",
              "task", "added_later", "late_retry", "component_pre", "component_later", "component_never"]
    for is_async in (False, True):
        for future, local, late in ((False, False, False), (True, False, False), (False, True, False), (False, False, True),
                                    (True, True, False), (True, False, True)):
            for style in REQ_STYLES + OPT_STYLES:
                if future and style in STRING_STYLES + ["OptionalStr"]:
                    continue
                for kind in ("pk", "kw"):
                    for si, state in enumerate(states):
                        rname = [None, "x", "default"][(si + len(style)) % 3]
                        name = rname or "default"
                        params = [{"role": "ord", "name": "a0", "default": None, "kind": "pk", "annotated": False},
                                  {"role": "inj", "name": "r0", "type": "TA", "ann": style, "rname": rname, "rkw": False, "kind": kind}]
                        spec = {"async": is_async, "future": future, "local": local, "late": late, "params": params, "varkw": False}
                        call = ["call", 0, None, "sut_first" if si % 2 else "oracle_first", [1], {}]
                        how = {"static": "static", "factory": "factory", "afactory": "afactory", "inherited_static": "static",
                               "inherited_factory": "factory", "task": "static", "added_later": "static"}.get(state)
                        if state.startswith("component"):
                            optional = style in OPT_STYLES
                            if state == "component_later" and (optional or not is_async):
                                continue             # only a non-optional lookup of a coroutine function waits
                            if state == "component_never" and is_async and not optional:
                                continue             # would wait forever
                            add = ["add", ["static", "factory", "afactory"][len(style) % 3], ["TA"], name]
                            scall = ["call", 0, None, "sut_first", [1], {}]
                            out.append({"kind": "component", "funcs": [spec], "define_at_build": True,
                                        "pre": [add] if state == "component_pre" else [],
                                        "providers": [{"delay": 1, "adds": [["add", "static", ["TA"], "y" if name != "y" else "x"], ["sleep"],
                                                                            ["add", "static", ["TC"], name]]
                                                       + ([add] if state == "component_later" else [])}],
                                        "caller": {"position": 0, "delay": 0, "calls": [scall, call]},
                                        "later": [["TA", name]] if state == "component_later" else []})
                            continue
                        if state == "late_retry":
                            if not uses_late(spec):
                                continue
                            levels = [{"pre": [["add", "static", ["TA"], name], call, ["define"], call, call], "post": []}]
                        elif state in ("static", "factory", "afactory"):
                            levels = [{"pre": [["add", how, ["TA"], name], call, call], "post": []}]
                        elif state in ("inherited_static", "inherited_factory"):
                            levels = [{"pre": [["add", how, ["TA"], name]], "post": [call]}, {"pre": [call, call], "post": []}]
                        elif state == "missing":
                            levels = [{"pre": [call], "post": []}]
                        elif state == "other_name":
                            levels = [{"pre": [["add", "static", ["TA"], "y" if name != "y" else "x"], call], "post": []}]
                        elif state == "other_type":
                            levels = [{"pre": [["add", "static", ["TB"], name], ["add", "factory", ["TC"], name], call], "post": []}]
                        elif state == "task":
                            tcall = ["call", 0, 0, call[3], [1], {}]
                            levels = [{"pre": [["add", "factory", ["TA"], name], tcall], "post": []},
                                      {"pre": [["add", "static", ["TA"], "y"], tcall, call], "post": []}]
                        else:
                            levels = [{"pre": [call, ["add", how, ["TA"], name], call], "post": []}]
                        out.append({"kind": "call", "funcs": [spec], "define_at_build": state != "late_retry", "levels": levels})
    for is_async in (False, True):
        for defect in ("posonly", "unannotated", "uncalled", "uncalled_unannotated", "uncalled_posonly"):
            for extra_valid in (False, True):
                bad = {"role": "inj", "name": "r0", "type": "TA", "ann": "plain", "rname": None, "rkw": False, "kind": "pk"}
                if defect in ("posonly", "uncalled_posonly"):
                    bad["kind"] = "po"
                if defect in ("unannotated", "uncalled_unannotated"):
                    bad["ann"] = None
                if defect.startswith("uncalled"):
                    bad["uncalled"] = True
                params = [bad]
                if extra_valid:
                    params.append({"role": "inj", "name": "r1", "type": "TB", "ann": "Optional", "rname": "x", "rkw": False, "kind": "kw"})
                out.append({"kind": "reject", "funcs": [{"async": is_async, "future": False, "local": False, "late": False,
                                                          "params": params, "varkw": False}]})
    return out


# ---------------------------------------------------------------------------------------------------- execution
def same(x, y):
    return x is y or (type(x) is int and type(y) is int and x == y)


class Parent(Component):
    pass


class Member(Component):
    """child component whose start() is a piece of the scenario"""
    def __init__(self, body):
        self.body = body

    async def start(self):
        await self.body()


class Run:
    def __init__(self, sc):
        self.sc = sc
        self.problems = []
        self.ran = []
        self.funcs = []      # (original, decorated, spec, signature text)
        self.spaces = []
        self.defined = False
        self.ctxs = []
        self.model = []      # per level: R: key -> ("static" | "gen", object), F: key -> (fid, is_async)
        self.tx = []
        self.nfact = 0
        self.nstatic = 0
        self.nproduct = 0

    def build(self):
        for i, spec in enumerate(self.sc["funcs"]):
            with warnings.catch_warnings():
                warnings.simplefilter("error")
                ns, src = build(spec, i, self.ran)
            sig = [ln.strip() for ln in src.splitlines() if f"def f{i}(" in ln][0]
            self.funcs.append((ns[f"f{i}"], ns[f"g{i}"], spec, sig))
            self.spaces.append(ns)
        if self.sc["define_at_build"]:
            self.define()

    def define(self):
        for ns, spec in zip(self.spaces, self.sc["funcs"]):
            if spec["late"]:
                define_late(ns)
        self.defined = True

    async def main(self):
        with anyio.fail_after(SCENARIO_TIMEOUT):
            if self.sc["kind"] == "component":
                await self.component()
            else:
                await self.level(0)

    # ------------------------------------------------------------------ chains of plain contexts
    async def worker(self, rx, lv):
        if current_context() is not self.ctxs[lv]:
            raise RuntimeError(f"harness: the task spawned at level {lv} does not run in that context")
        async with rx:
            async for job in rx:
                await job()

    async def level(self, lv):
        spec = self.sc["levels"][lv]
        async with Context() as ctx:
            self.ctxs.append(ctx)
            parent = self.model[lv - 1] if lv else {"R": {}, "F": {}}
            self.model.append({"R": {k: v for k, v in parent["R"].items() if v[0] == "static"}, "F": dict(parent["F"])})
            tx, rx = anyio.create_memory_object_stream(4)
            self.tx.append(tx)
            async with anyio.create_task_group() as tg:
                tg.start_soon(self.worker, rx, lv)
                try:
                    for op in spec["pre"]:
                        await self.op(op, lv)
                    if lv + 1 < len(self.sc["levels"]):
                        await self.level(lv + 1)
                    for op in spec["post"]:
                        await self.op(op, lv)
                finally:
                    tx.close()
            self.tx.pop()
            self.model.pop()
            self.ctxs.pop()

    async def op(self, op, lv):
        if op[0] == "add":
            self.add(op, self.model[lv])
            return
        if op[0] == "define":
            self.define()
            return
        _, fidx, via, order, args, kwargs = op
        if via is None:
            await self.round(fidx, order, args, kwargs, self.model[lv], "the task that entered the context")
        else:
            done = anyio.Event()

            async def job():
                try:
                    if current_context() is not self.ctxs[via]:
                        raise RuntimeError("harness: unexpected current context")
                    await self.round(fidx, order, args, kwargs, self.model[via],
                                     f"a task spawned in context level {via} while level {lv} is innermost")
                finally:
                    done.set()
            await self.tx[via].send(job)
            await done.wait()

    # ------------------------------------------------------------------ component start-up
    async def component(self):
        sc = self.sc
        m = {"R": {}, "F": {}}
        later = {(TYPES[t], n) for t, n in sc["later"]}

        def provider(p):
            async def body():
                for _ in range(p["delay"]):
                    await anyio.sleep(0)
                for op in p["adds"]:
                    if op[0] == "sleep":
                        await anyio.sleep(0)
                    else:
                        self.add(op, m)
            return body

        async def caller():
            if type(current_context()).__name__ != "ComponentContext":
                raise RuntimeError("harness: start() does not run in a ComponentContext")
            for _ in range(sc["caller"]["delay"]):
                await anyio.sleep(0)
            for _, fidx, _via, order, args, kwargs in sc["caller"]["calls"]:
                await self.round(fidx, order, args, kwargs, m, "the start() of a component (current context is its ComponentContext)",
                                 later)

        members = [provider(p) for p in sc["providers"]]
        members.insert(sc["caller"]["position"], caller)
        async with Context():
            for op in sc["pre"]:
                self.add(op, m)
            await start_component(Parent, {"components": {f"c{i}": {"type": Member, "body": b} for i, b in enumerate(members)}},
                                  timeout=SCENARIO_TIMEOUT / 2)

    # ------------------------------------------------------------------ shared
    def add(self, op, m):
        _, how, tnames, name = op
        types = [TYPES[t] for t in tnames]
        run = self
        try:
            if how == "static":
                obj = types[-1]()
                obj.sid = self.nstatic
                self.nstatic += 1
                add_resource(obj, name, types)
                for t in types:
                    m["R"][(t, name)] = ("static", obj)
            else:
                fid = self.nfact
                self.nfact += 1
                t = types[0]

                def make():
                    o = t()
                    o.fid = fid
                    o.serial = run.nproduct
                    run.nproduct += 1
                    return o
                if how == "factory":
                    callback = make
                else:
                    async def callback():
                        await anyio.sleep(0)
                        return make()
                add_resource_factory(callback, name, types=[t])
                m["F"][(t, name)] = (fid, how == "afactory")
        except ResourceConflict:
            pass

    async def round(self, fidx, order, args, kwargs, m, where, later=frozenset()):
        """one call of the decorated function g and one of the original f with explicit lookups, in the given order;
        m: reference model of the current context; later: keys that a sibling component publishes at some point"""
        f, g, spec, sig = self.funcs[fidx]
        is_async = spec["async"]
        inj = [p for p in spec["params"] if p["role"] == "inj"]
        a = [Arg(v) for v in args]
        kw = {k: Arg(v) for k, v in kwargs.items()}
        call_txt = f"{sig[:-1]} called as g({', '.join([repr(x) for x in a] + [f'{k}={v!r}' for k, v in kw.items()])}) from {where}"

        def key_of(p):
            return (TYPES[p["type"]], p["rname"] or "default")

        async def sut():
            n = len(self.ran)
            try:
                r = g(*a, **kw)
                if inspect.isawaitable(r):
                    r = await r
            except Exception as e:
                return ("exc", e, len(self.ran) - n)
            return ("ok", r, len(self.ran) - n)

        if uses_late(spec) and not self.defined:
            # the annotated type does not exist yet: the outcome of this call is not pinned down (but it happens, and
            # must not change what later calls do)
            await sut()
            return

        # what the reference model says about each injected parameter, before anything is looked up
        exp = {}
        for p in inj:
            key = key_of(p)
            if key in m["R"]:
                exp[p["name"]] = ("is", m["R"][key][1])
            elif key in m["F"]:
                fid, fasync = m["F"][key]
                exp[p["name"]] = ("async_error",) if fasync and not is_async else ("made_by", fid)
            elif key in later and is_async and p["ann"] not in OPT_STYLES:
                exp[p["name"]] = ("later", key)          # get_resource() waits for the sibling component
            elif key in later:
                raise RuntimeError("harness: timing-dependent lookup generated")
            elif p["ann"] in OPT_STYLES:
                exp[p["name"]] = ("none",)
            else:
                exp[p["name"]] = ("not_found", key)

        async def oracle():
            looks, fails = {}, []
            for p in inj:
                t, n = key_of(p)
                try:
                    if p["ann"] in OPT_STYLES:
                        v = (await get_resource(t, n, optional=True)) if is_async else get_resource_nowait(t, n, optional=True)
                    else:
                        v = (await get_resource(t, n)) if is_async else get_resource_nowait(t, n)
                except Exception as e:
                    fails.append(e)
                else:
                    looks[p["name"]] = v
            if fails:
                return ("exc", fails, looks)
            r = f(*a, **kw, **looks)
            if is_async:
                r = await r
            return ("ok", r, looks)

        if order == "sut_first":
            s = await sut()
            o = await oracle()
        else:
            o = await oracle()
            s = await sut()
        for name, x in list(exp.items()):
            if x[0] == "later":                          # the explicit lookup has returned: it has been published by now
                if x[1] in m["R"]:
                    exp[name] = ("is", m["R"][x[1]][1])
                elif x[1] in m["F"]:
                    exp[name] = ("made_by", m["F"][x[1]][0])
                else:
                    raise RuntimeError("harness: awaited resource was never published")

        # (1) the statement: same outcome as the original function with explicit lookups
        if s[0] == "ok":
            res = s[1]
            if o[0] == "exc":
                self.problems.append(f"{call_txt} returned {show(res)} but the explicit lookup raises {type(o[1][0]).__name__}: {o[1][0]}")
            elif not isinstance(res, dict) or set(res) != set(o[1]):
                self.problems.append(f"{call_txt} returned {show(res)}, the original with explicit lookups returned {show(o[1])}")
            else:
                for k, v in res.items():
                    w = o[1][k]
                    ok = (isinstance(v, dict) and set(v) == set(w) and all(same(v[x], w[x]) for x in v)) if k == "extra" else same(v, w)
                    if not ok:
                        what = "injected parameter" if k in exp else "ordinary parameter"
                        self.problems.append(f"{call_txt}: {what} {k} received {show(v)}, with explicit lookups in the current "
                                             f"context it receives {show(w)}")
                if s[2] != 1:
                    self.problems.append(f"{call_txt}: the function body ran {s[2]} times for one call")
        else:
            e = s[1]
            if s[2]:
                self.problems.append(f"{call_txt} raised {type(e).__name__} after the function body had run")
            if o[0] == "ok":
                self.problems.append(f"{call_txt} raised {type(e).__name__}: {e} but every explicit lookup succeeds "
                                     f"({show(o[2])})")
            elif not any(type(e) is type(x) and (not isinstance(e, ResourceNotFound) or (e.type, e.name) == (x.type, x.name))
                         for x in o[1]):
                self.problems.append(f"{call_txt} raised {type(e).__name__}: {e}, the explicit lookups raise "
                                     f"{[f'{type(x).__name__}: {x}' for x in o[1]]}")

        # (2) the reference model of the context chain
        must_fail = [x for x in exp.values() if x[0] in ("async_error", "not_found")]
        if s[0] == "ok" and isinstance(s[1], dict):
            for name, x in exp.items():
                if name not in s[1]:
                    continue
                v = s[1][name]
                if x[0] == "is" and v is not x[1]:
                    self.problems.append(f"{call_txt}: {name} received {show(v)}, the resource visible in the current context is {show(x[1])}")
                elif x[0] == "made_by" and getattr(v, "fid", None) != x[1]:
                    self.problems.append(f"{call_txt}: {name} received {show(v)}, expected a product of factory #{x[1]}")
                elif x[0] == "none" and v is not None:
                    self.problems.append(f"{call_txt}: optional {name} received {show(v)} although nothing matches (expected None)")
                elif x[0] == "not_found":
                    self.problems.append(f"{call_txt}: {name} received {show(v)} although no resource {x[1][0].__name__}/{x[1][1]!r} "
                                         f"is visible (expected ResourceNotFound before the body runs)")
                elif x[0] == "async_error":
                    self.problems.append(f"{call_txt}: {name} received {show(v)} from an async factory in a plain function")
        elif s[0] == "exc":
            e = s[1]
            if not must_fail:
                self.problems.append(f"{call_txt} raised {type(e).__name__}: {e} although every injected parameter is resolvable "
                                     f"(possibly after waiting for a sibling component) or optional")
            elif isinstance(e, ResourceNotFound):
                if not any(x[0] == "not_found" and (e.type, e.name) == x[1] for x in must_fail):
                    self.problems.append(f"{call_txt} raised {e!r}, which is not one of the missing non-optional resources")
            elif isinstance(e, AsyncResourceError):
                if not any(x[0] == "async_error" for x in must_fail):
                    self.problems.append(f"{call_txt} raised AsyncResourceError without an async factory being involved")
            else:
                self.problems.append(f"{call_txt} raised {type(e).__name__}: {e}")
        # both sides have now looked everything up: products are bound to this context
        for p in inj:
            x = exp[p["name"]]
            if x[0] == "made_by" and p["name"] in o[2] and key_of(p) not in m["R"]:
                v = o[2][p["name"]]
                if getattr(v, "fid", None) == x[1]:
                    m["R"][key_of(p)] = ("gen", v)


def check_reject(sc):
    spec = sc["funcs"][0]
    try:
        ns, src = build(spec, 0, [], decorate=False)
    except Exception as e:
        return [f"harness: could not define the function: {type(e).__name__}: {e}"]
    sig = [ln.strip() for ln in src.splitlines() if "def f0(" in ln][0]
    try:
        with warnings.catch_warnings():
            warnings.simplefilter("ignore")
            inject(ns["f0"])
    except Exception:
        return []
    return [f"inject() accepted `{sig}` (positional-only, unannotated or uncalled resource marker) instead of rejecting it"]


def _alarm(*_):
    raise HardTimeout("scenario exceeded the hard time limit")


def check(sc):
    if sc["kind"] == "reject":
        return check_reject(sc)
    run = Run(sc)
    old = signal.signal(signal.SIGALRM, _alarm)
    signal.alarm(2 * SCENARIO_TIMEOUT)
    try:
        try:
            run.build()
        except Exception as e:
            return [f"decorating a valid function failed: {type(e).__name__}: {e}"]
        try:
            anyio.run(run.main)
        except Exception as e:
            inner = e
            while isinstance(inner, BaseExceptionGroup) and inner.exceptions:
                inner = inner.exceptions[0]
            while inner.__cause__ is not None and type(inner).__name__ == "ComponentStartError":
                inner = inner.__cause__
            return run.problems + [f"scenario crashed: {type(inner).__name__}: {inner}"]
        return run.problems
    finally:
        signal.alarm(0)
        signal.signal(signal.SIGALRM, old)


SCOPE = ("1-2 generated functions (sync/async; 0-3 ordinary positional incl. positional-only and defaulted, 0-2 keyword-only, **kwargs, "
         "1-3 injected parameters positional-or-keyword or keyword-only; annotations T, Optional[T], T | None, None | T, Union[T, None], "
         "'T', 'Optional[T]', 'T | None', Optional['T']; __future__ annotations, locally defined functions with local types, names "
         "defined after decoration or only after earlier calls; resource names default/x/y over 3 types) called 1-10 times in chains "
         "of 1-3 nested contexts with static resources, sync/async factories, decoys, inherited and missing resources, directly, from "
         "tasks spawned at outer levels and from a component's start() while sibling components publish (get_resource waits), compared "
         "by identity with explicit get_resource(_nowait) lookups and a reference model; decoration-time rejection of positional-only / "
         "unannotated / uncalled markers")


def search(seed, budget):
    rnd = random.Random(seed)
    n = 1500 if budget == "quick" else 40000
    seen = set()
    i = 0
    sysl = systematic()
    if budget == "quick":                # a seed-dependent third of the enumerated part, all of it when thorough
        sysl = [sc for j, sc in enumerate(sysl) if sc["kind"] == "reject" or (j + seed) % 3 == 0]
    for sc in sysl + [None] * n:
        if sc is None:
            sc = gen(rnd)
        i += 1
        seen.add(repr(sc))
        p = check(sc)
        if p:
            return {"violation": True, "input": sc, "detail": "; ".join(p[:3]), "evaluations": i, "distinct": len(seen)}
    return {"violation": False, "evaluations": i, "distinct": len(seen), "scope": SCOPE}


def replay(sc):
    p = check(sc)
    return bool(p), "; ".join(p[:3]) or "the decorated function behaves like the original with explicit lookups on this scenario"


if __name__ == "__main__":
    main(search, replay)
