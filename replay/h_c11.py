"""C11 harness: every (instance, signal attribute) pair is an independent channel."""
import gc, itertools, random, weakref
import anyio
from hlib import main
from asphalt.core import Event, Signal, UnboundSignal
from anyio import create_memory_object_stream, WouldBlock


class EvA(Event):
    pass


class EvB(Event):
    pass


class Base:
    a = Signal(EvA)
    b = Signal(EvB)


class Child(Base):
    c = Signal(EvA)


class Other:
    a = Signal(EvA)


async def scenario(sc):
    problems = []
    objs = [Base(), Base(), Child(), Other()]
    attrs = {0: ["a", "b"], 1: ["a", "b"], 2: ["a", "b", "c"], 3: ["a"]}
    pairs = [(i, n) for i in attrs for n in attrs[i]]
    order = list(pairs)
    random.Random(sc["seed"]).shuffle(order)
    first = {}
    for (i, n) in order:                      # first accesses in a random order
        first[(i, n)] = getattr(objs[i], n)
    for (i, n) in pairs:
        s = getattr(objs[i], n)
        if s is not first[(i, n)]:
            problems.append(f"obj{i}.{n} yields a different bound signal on re-access")
        if s._topic != n:
            problems.append(f"obj{i}.{n} carries topic {s._topic!r}")
        want = {"a": EvA, "b": EvB, "c": EvA}[n]
        if s.event_class is not want:
            problems.append(f"obj{i}.{n} carries event class {s.event_class.__name__}")
    for p, q in itertools.combinations(pairs, 2):
        if first[p] is first[q]:
            problems.append(f"obj{p[0]}.{p[1]} and obj{q[0]}.{q[1]} share one bound signal")
    # delivery isolation
    rx = {}
    cms = []
    for p in pairs:
        tx, r = create_memory_object_stream(100)
        cm = first[p]._subscribe(tx)
        cm.__enter__()
        cms.append(cm)
        rx[p] = r
    for p in order:
        ev = {"a": EvA, "b": EvB, "c": EvA}[p[1]]()
        getattr(objs[p[0]], p[1]).dispatch(ev)
        for q in pairs:
            got = []
            while True:
                try:
                    got.append(rx[q].receive_nowait())
                except WouldBlock:
                    break
            if q == p and got != [ev]:
                problems.append(f"event dispatched on obj{p[0]}.{p[1]} was not delivered exactly once to its subscriber: {got!r}")
            if q != p and got:
                problems.append(f"event dispatched on obj{p[0]}.{p[1]} reached the subscriber of obj{q[0]}.{q[1]}")
    for cm in cms:
        cm.__exit__(None, None, None)
    try:
        objs[0].a.dispatch(EvB())
        problems.append("an event of the wrong class was accepted")
    except TypeError:
        pass
    for use in (lambda: Base.a.dispatch(EvA()), lambda: Base.a._subscribe(None).__enter__()):
        try:
            use()
            problems.append("using a signal through the class did not raise UnboundSignal")
        except UnboundSignal:
            pass
    o = Base()
    o.a, o.b
    w = weakref.ref(o)
    del o
    gc.collect()
    if w() is not None:
        problems.append("binding signals keeps the owning instance alive")
    return problems


def check(sc):
    try:
        return anyio.run(scenario, sc)
    except BaseException as e:
        return [f"scenario crashed: {type(e).__name__}: {e}"]


def search(seed, budget):
    n = 300 if budget == "quick" else 3000
    for i in range(n):
        sc = {"seed": seed * 1000 + i}
        p = check(sc)
        if p:
            return {"violation": True, "input": sc, "detail": "; ".join(p[:3]), "evaluations": i + 1, "distinct": i + 1}
    return {"violation": False, "evaluations": n, "distinct": n,
            "scope": "4 instances of 3 classes (two attributes, one inherited + one added, one unrelated), all first-access orders sampled, "
                     "full identity matrix, cross-delivery matrix, wrong class, class-level use, weak binding"}


def replay(sc):
    p = check(sc)
    return bool(p), "; ".join(p[:3]) or "channels are independent on this scenario"


if __name__ == "__main__":
    main(search, replay)
