"""Common code of the native harnesses (run under /venv/bin/python against the real asphalt code)."""
import argparse, json, os, random, sys
sys.path.insert(0, os.environ.get("VERIF_REPO_SRC", "/repo/src"))


def main(search, replay):
    """search(seed, budget) -> dict(violation, input, detail, evaluations, distinct, scope)
       replay(input) -> (violated: bool, detail)"""
    ap = argparse.ArgumentParser()
    ap.add_argument("mode", choices=["search", "replay"])
    ap.add_argument("file", nargs="?")
    ap.add_argument("--seed", type=int, default=0)
    ap.add_argument("--budget", default="quick")
    a = ap.parse_args()
    if a.mode == "search":
        r = search(a.seed, a.budget)
        print(json.dumps(r, default=repr))
        sys.exit(1 if r.get("violation") else 0)
    rec = json.load(open(a.file))
    if rec.get("kind") == "witness":
        import subprocess
        w = os.path.join(os.path.dirname(os.path.dirname(os.path.abspath(__file__))), rec["witness"])
        p = subprocess.run([sys.executable, w], capture_output=True, text=True, cwd=os.path.dirname(w))
        print(json.dumps({"violation": p.returncode == 1, "detail": p.stdout.strip()[-400:]}))
        sys.exit(1 if p.returncode == 1 else 0)
    if rec.get("kind") == "obligation" or "input" not in rec:
        # no concrete input was found when this file was written: search again
        r = search(0, "quick")
        print(json.dumps({"violation": bool(r.get("violation")), "detail": r.get("detail", "no failing input found; "
                          "failed obligations: " + ", ".join(o["id"] for o in rec.get("failed_obligations", [])))}, default=repr))
        sys.exit(1 if r.get("violation") else 0)
    v, detail = replay(rec["input"])
    print(json.dumps({"violation": bool(v), "detail": detail}, default=repr))
    sys.exit(1 if v else 0)
