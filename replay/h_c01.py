"""C01 harness: teardown callbacks - exactly once, LIFO incl. late registrations, one at a time, pass_exception,
raising callbacks never stop the loop, one exception group, closed, block outcome preserved."""
import itertools, random, sys
import anyio
from hlib import main
from asphalt.core import Context, context_teardown, add_teardown_callback


class Boom(Exception):
    pass


class BaseBoom(BaseException):
    pass


class BlockErr(Exception):
    pass


class BlockBase(BaseException):
    pass


def gen_scenario(rnd):
    n = rnd.randint(1, 4)
    cbs = []
    for i in range(n):
        cbs.append({
            "route": rnd.choice(["direct", "direct", "resource", "generator"]),
            "async": rnd.random() < 0.5,
            "pass_exception": rnd.random() < 0.5,
            "raises": rnd.choice([None, None, "Exception", "BaseException"]),
            "registers_more": rnd.random() < 0.3,
        })
    return {"root": rnd.random() < 0.5, "callbacks": cbs, "ending": rnd.choice(["normal", "exception", "baseexception", "cancel"]),
            "ambient": rnd.random() < 0.3}


async def run_scenario(sc):
    log = []          # (event, label)
    registered = []   # labels in registration order
    running = [0]
    problems = []
    expected_arg = {}

    def make(label, spec, late=False):
        def body_start(exc_arg):
            if running[0]:
                problems.append(f"{label} started while another callback was still running")
            running[0] += 1
            log.append(("start", label, exc_arg))

        def body_end():
            running[0] -= 1
            log.append(("end", label))
            if spec.get("registers_more") and not late:
                lbl2 = label + "+late"
                cb2 = make(lbl2, {"async": False, "pass_exception": False, "raises": None}, late=True)
                ctx_holder[0].add_teardown_callback(cb2)
                registered.append(lbl2)
            if spec["raises"] == "Exception":
                raise Boom(label)
            if spec["raises"] == "BaseException":
                raise BaseBoom(label)

        if spec["async"]:
            async def cb(*a):
                body_start(a[0] if a else "noarg")
                if sc["ending"] != "cancel":
                    await anyio.sleep(0)
                body_end()
        else:
            def cb(*a):
                body_start(a[0] if a else "noarg")
                body_end()
        return cb

    ctx_holder = [None]
    block_exc = {"normal": None, "exception": BlockErr("block"), "baseexception": BlockBase("block"), "cancel": "cancel"}[sc["ending"]]
    caught = [None]

    async def scenario_body():
        async def inner():
            async with Context() as ctx:
                ctx_holder[0] = ctx
                for i, spec in enumerate(sc["callbacks"]):
                    label = f"cb{i}"
                    if spec["route"] == "direct":
                        ctx.add_teardown_callback(make(label, spec), spec["pass_exception"])
                        expected_arg[label] = "exc" if spec["pass_exception"] else "noarg"
                    elif spec["route"] == "resource":
                        ctx.add_resource(object(), f"r{i}", teardown_callback=make(label, spec))
                        expected_arg[label] = "noarg"
                    else:
                        f = make(label, spec)

                        @context_teardown
                        async def gen_fn(f=f, spec=spec):
                            e = yield
                            r = f(e)
                            if spec["async"]:
                                await r
                        await gen_fn()
                        expected_arg[label] = "exc"
                    registered.append(label)
                if sc["ending"] == "exception":
                    raise block_exc
                if sc["ending"] == "baseexception":
                    raise block_exc
                if sc["ending"] == "cancel":
                    scope.cancel()
                    await anyio.sleep(0)
        if sc["root"]:
            await inner()
        else:
            async with Context():
                await inner()

    with anyio.CancelScope() as scope:
        try:
            if sc["ambient"]:
                try:
                    raise KeyError("ambient")
                except KeyError:
                    await scenario_body()
            else:
                await scenario_body()
        except BaseException as e:
            caught[0] = e
    ctx = ctx_holder[0]
    # ---- oracle
    starts = [l for (ev, l, *r) in log if ev == "start"]
    for lbl in registered:
        if starts.count(lbl) != 1:
            problems.append(f"callback {lbl} invoked {starts.count(lbl)} times (registered: {registered}, invoked: {starts})")
    # LIFO with late registrations: simulate the stack
    stack = [l for l in registered if not l.endswith("+late")]
    order = []
    sim = list(stack)
    while sim:
        top = sim.pop()
        order.append(top)
        if top + "+late" in registered:
            sim.append(top + "+late")
    if starts != order and not problems:
        problems.append(f"invocation order {starts} != reverse registration order {order}")
    for (ev, l, *r) in log:
        if ev == "start" and l in expected_arg:
            arg = r[0]
            if expected_arg[l] == "noarg" and arg != "noarg":
                problems.append(f"{l} got an argument {arg!r} without pass_exception")
            if expected_arg[l] == "exc":
                want = None if sc["ending"] == "normal" else block_exc
                if sc["ending"] == "cancel":
                    if not (isinstance(arg, BaseException) and not isinstance(arg, Exception)):
                        problems.append(f"{l} received {arg!r}, expected the cancellation exception")
                elif arg is not want:
                    problems.append(f"{l} received {arg!r}, expected {want!r}")
    if ctx is not None and not ctx.closed:
        problems.append("context not closed after the block")
    raised = [l for l in order if (l.endswith("+late") is False and sc["callbacks"][int(l[2:].split('+')[0])]["raises"])]
    e = caught[0]

    def flatten(x):
        if isinstance(x, BaseExceptionGroup):
            out = []
            for y in x.exceptions:
                out.extend(flatten(y))
            return out
        return [x]
    if raised:
        if not isinstance(e, BaseExceptionGroup):
            problems.append(f"callbacks {raised} raised but the caller saw {e!r} instead of an exception group")
        else:
            got = [str(x) for x in flatten(e) if isinstance(x, (Boom, BaseBoom))]
            if got != raised:
                problems.append(f"exception group members {got} != exceptions raised by callbacks {raised} (in order)")
    else:
        if sc["ending"] == "normal" and e is not None:
            problems.append(f"clean exit but the caller saw {e!r}")
        if sc["ending"] == "exception" and e is not block_exc:
            problems.append(f"block raised {block_exc!r} but the caller saw {e!r} (must be the exception itself)")
        if sc["ending"] == "baseexception" and block_exc not in flatten(e) if e is not None else True:
            if sc["ending"] == "baseexception":
                problems.append(f"block raised {block_exc!r} but the caller saw {e!r}")
    return problems


def check(sc):
    try:
        probs = anyio.run(run_scenario, sc)
    except BaseException as e:   # noqa
        return [f"scenario crashed: {type(e).__name__}: {e}"]
    return probs


def search(seed, budget):
    rnd = random.Random(seed)
    n = 2500 if budget == "quick" else 20000
    seen = set()
    for i in range(n):
        sc = gen_scenario(rnd)
        seen.add(repr(sc))
        p = check(sc)
        if p:
            return {"violation": True, "input": sc, "detail": "; ".join(p[:3]), "evaluations": i + 1, "distinct": len(seen)}
    return {"violation": False, "evaluations": n, "distinct": len(seen),
            "scope": "1-4 callbacks x route {direct, resource, @context_teardown} x sync/async x pass_exception x raises {-, Exception, "
                     "BaseException} x late registration; block ends normally / Exception / BaseException / cancellation; root or nested; "
                     "optionally inside an except block (ambient exception)"}


def replay(sc):
    p = check(sc)
    return bool(p), "; ".join(p[:3]) or "teardown behaves as specified on this scenario"


if __name__ == "__main__":
    main(search, replay)
