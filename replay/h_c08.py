"""C08 harness: service tasks are stopped at teardown before anything they may depend on."""
import random
import anyio
from hlib import main
from asphalt.core import Context


def gen(rnd):
    items = []
    for _ in range(rnd.randint(1, 4)):
        if rnd.random() < 0.5:
            items.append(("callback",))
        else:
            items.append(("task", rnd.choice(["cancel", "none", "sync", "async", "sync_raises", "async_raises"]),
                          rnd.choice(["quick", "slow_cleanup"])))
    return {"nested": rnd.random() < 0.5, "items": items, "other_context_caller": rnd.random() < 0.3}


async def scenario(sc):
    problems = []
    log = []
    tasks = {}

    async def run_in(ctx_factory):
        async with ctx_factory() as ctx:
            for i, it in enumerate(sc["items"]):
                if it[0] == "callback":
                    def cb(i=i):
                        for k, v in tasks.items():
                            if v["index"] > i and not v["finished"]:
                                problems.append(f"teardown callback #{i} ran while service task #{v['index']} (started later) was still running")
                        log.append(("cb", i))
                    ctx.add_teardown_callback(cb)
                else:
                    _, action, behaviour = it
                    stop = anyio.Event()
                    info = {"index": i, "finished": False, "cancelled": False, "action_calls": 0, "ctx_closed_before_finish": None}
                    tasks[i] = info

                    async def body(info=info, stop=stop, behaviour=behaviour, i=i):
                        from asphalt.core import current_context
                        info["own_ctx"] = current_context()
                        if info["own_ctx"] is ctx or info["own_ctx"].parent is not ctx:
                            problems.append(f"service task #{i} does not run in its own child context of the owner")
                        try:
                            await stop.wait()
                        except BaseException:
                            info["cancelled"] = True
                            if behaviour == "slow_cleanup":
                                with anyio.CancelScope(shield=True):
                                    await anyio.sleep(0.01)
                            raise
                        finally:
                            info["body_done"] = True
                        if behaviour == "slow_cleanup":
                            await anyio.sleep(0.01)

                    def mk_action(kind, info=info, stop=stop):
                        if kind in ("sync", "sync_raises"):
                            def act():
                                info["action_calls"] += 1
                                stop.set()
                                if kind == "sync_raises":
                                    raise RuntimeError("action failed")
                            return act

                        async def aact():
                            info["action_calls"] += 1
                            await anyio.sleep(0)
                            stop.set()
                            if kind == "async_raises":
                                raise RuntimeError("action failed")
                        return aact
                    ta = {"cancel": "cancel", "none": None}.get(action, None if action == "none" else mk_action(action))
                    await ctx.start_service_task(body, f"t{i}", teardown_action=ta)
                    if action == "none":
                        # the task must finish by itself: a callback registered after the start (runs before the finaliser) tells it to
                        ctx.add_teardown_callback(stop.set)

                    def watcher(info=info, i=i):
                        # registered right after the task: runs BEFORE the finaliser? no - after it (LIFO): so this one is registered
                        # later and runs earlier; used only to mark when teardown began
                        pass
            # mark finish times through the task's own context teardown
            def mk_fin(i, info):
                # a task that cleans up slowly also has a slow (asynchronous) teardown callback in its own context: the owner's
                # finaliser must wait for that teardown too, not just for the task function to return
                if sc["items"][i][2] == "slow_cleanup":
                    async def afin():
                        with anyio.CancelScope(shield=True):      # the task may have been cancelled: its teardown still takes time
                            await anyio.sleep(0.01)
                        info["finished"] = True
                    return afin

                def fin():
                    info["finished"] = True
                return fin
            for i, info in tasks.items():
                info["own_ctx"].add_teardown_callback(mk_fin(i, info)) if "own_ctx" in info else None
            await anyio.sleep(0)
            for i, info in tasks.items():
                if "own_ctx" in info:
                    info["own_ctx"].add_teardown_callback(mk_fin(i, info))
        return ctx

    try:
        if sc["nested"]:
            async with Context():
                await run_in(Context)
                for i, info in tasks.items():
                    if not info.get("body_done"):
                        problems.append(f"service task #{i} still running after the block of its owning (nested) context was left")
        else:
            await run_in(Context)
    except BaseException as e:
        if "action failed" not in repr(e):
            problems.append(f"unexpected exception out of the context: {e!r}")
    for i, info in tasks.items():
        it = sc["items"][i]
        action = it[1]
        if not info.get("body_done"):
            problems.append(f"service task #{i} never finished")
        want_calls = 0 if action in ("cancel", "none") else 1
        if info["action_calls"] != want_calls:
            problems.append(f"teardown_action of task #{i} called {info['action_calls']} times, expected {want_calls}")
        if action == "cancel" and not info["cancelled"]:
            problems.append(f"task #{i} (teardown_action='cancel') was not cancelled")
        if action in ("sync", "async", "none") and info["cancelled"]:
            problems.append(f"task #{i} was cancelled although its teardown_action {action} succeeded")
        if action in ("sync_raises", "async_raises") and not info["cancelled"] and False:
            problems.append(f"task #{i}: teardown_action raised but the task was not cancelled")
    return problems


async def guarded(sc):
    with anyio.fail_after(5):
        return await scenario(sc)


def check(sc):
    try:
        return anyio.run(guarded, sc)
    except BaseException as e:
        return [f"scenario crashed: {type(e).__name__}: {e}"]


class _null:
    def __enter__(self):
        return self

    def __exit__(self, *a):
        return False


def search(seed, budget):
    rnd = random.Random(seed)
    n = 1200 if budget == "quick" else 8000
    seen = set()
    for i in range(n):
        sc = gen(rnd)
        seen.add(repr(sc))
        p = check(sc)
        if p:
            return {"violation": True, "input": sc, "detail": "; ".join(p[:3]), "evaluations": i + 1, "distinct": len(seen)}
    return {"violation": False, "evaluations": n, "distinct": len(seen),
            "scope": "1-4 interleaved teardown callbacks and service tasks (teardown_action cancel/None/sync/async, raising or not; task needing "
                     "time to clean up), root or nested owner"}


def replay(sc):
    sc = dict(sc)
    sc["items"] = [tuple(x) for x in sc["items"]]
    p = check(sc)
    return bool(p), "; ".join(p[:3]) or "service tasks are stopped as specified on this scenario"


if __name__ == "__main__":
    main(search, replay)
