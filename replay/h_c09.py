"""C09 harness: task factories - inherited context, exact handle set, teardown waits, errors kept."""
import random
import anyio
from hlib import main
from asphalt.core import Context, current_context, start_background_task_factory, add_resource, get_resource_nowait


class Boom(Exception):
    pass


def gen(rnd):
    tasks = []
    for _ in range(rnd.randint(1, 4)):
        tasks.append({"how": rnd.choice(["start", "soon"]), "outcome": rnd.choice(["return", "raise", "cancel", "block"]),
                      "from_inner_ctx": rnd.random() < 0.4})
    sc = {"tasks": tasks, "handler": rnd.choice([None, "accept", "decline"]), "late_start": rnd.random() < 0.3}
    # drawn last so that the earlier draws (and with them the scenarios of earlier seeds) stay what they were
    early = rnd.random() < 0.5
    for t in tasks:
        if t["how"] == "soon" and t["outcome"] == "cancel":
            t["early_cancel"] = early      # cancel() between the spawn and the task's first step must not be lost
    return sc


async def scenario(sc):
    problems = []
    handled = []
    verdict = sc["handler"]

    def handler(exc):
        handled.append(exc)
        return verdict == "accept"
    release = anyio.Event()
    infos = []
    factory = None
    escaped = None
    unhandled = any(t["outcome"] == "raise" for t in sc["tasks"]) and verdict != "accept"
    try:
      async with anyio.create_task_group() as outer:
        async with Context() as root:
            add_resource("at-factory-start", "marker")
            factory = await start_background_task_factory(exception_handler=handler if verdict else None)
            add_resource("added-later", "late")
            handles = []
            for i, t in enumerate(sc["tasks"]):
                info = {"i": i, "ended": False}
                infos.append(info)

                async def body(info=info, t=t):
                    ctx = current_context()
                    info["ctx_parent"] = ctx.parent
                    info["sees_spawner"] = ctx.get_resource_nowait(str, "spawner_only", optional=True)
                    info["sees_marker"] = ctx.get_resource_nowait(str, "marker", optional=True)
                    info["sees_late"] = ctx.get_resource_nowait(str, "late", optional=True)
                    try:
                        if t["outcome"] == "raise":
                            raise Boom(str(info["i"]))
                        if t["outcome"] in ("cancel", "block"):
                            await release.wait()
                    except BaseException as e:
                        if not isinstance(e, Boom):
                            info["cancelled"] = True
                        raise
                    finally:
                        info["ended"] = True

                async def spawn(t=t, body=body):
                    if t["how"] == "start":
                        return await factory.start_task(body, f"t{i}")
                    return factory.start_task_soon(body, f"t{i}")
                if t["from_inner_ctx"]:
                    async with Context():
                        add_resource("only-here", "spawner_only")
                        h = await spawn()
                else:
                    h = await spawn()
                handles.append(h)
                info["handle"] = h
                if t.get("early_cancel"):
                    h.cancel()
            await anyio.sleep(0)
            await anyio.sleep(0)
            # handle set == spawned and not ended
            want = {info["handle"] for info in infos if not info["ended"]}
            got = factory.all_task_handles()
            if got != want:
                problems.append(f"all_task_handles() has {len(got)} handles, expected exactly the {len(want)} unfinished tasks")
            if got is factory._tasks:
                problems.append("all_task_handles() returned the internal set itself")
            # cancel ends only that task
            for info, t in zip(infos, sc["tasks"]):
                if t["outcome"] == "cancel":
                    if not t.get("early_cancel"):      # an early cancel() must be enough on its own
                        info["handle"].cancel()
                    try:
                        with anyio.fail_after(1):
                            await info["handle"].wait_finished()
                    except TimeoutError:
                        problems.append("a cancelled task did not finish: cancel() was lost" + (" (issued before the task's first step)" if t.get("early_cancel") else ""))
                        release.set()
                    if not info["ended"]:
                        problems.append("wait_finished() returned before the cancelled task ended")
            for info, t in zip(infos, sc["tasks"]):
                if t["outcome"] == "block" and info["ended"] and not unhandled:
                    problems.append("cancelling one task ended another one")
            want = {info["handle"] for info in infos if not info["ended"]}
            if factory.all_task_handles() != want:
                problems.append("handle set is not exactly the unfinished tasks after cancelling")
            # teardown must wait for (not cancel) blocked tasks: release them shortly after teardown begins
            async def releaser():
                await anyio.sleep(0.02)
                release.set()
            outer.start_soon(releaser)
    except BaseException as e:
        escaped = e
    for info, t in zip(infos, sc["tasks"]):
        if t["outcome"] == "block" and info.get("cancelled") and not unhandled:
            problems.append(f"tearing down the factory's context cancelled running task {info['i']} instead of waiting for it")
        if not info["ended"]:
            problems.append(f"task {info['i']} still running after its factory's owning context was left")
        if info.get("ctx_parent") is None or info.get("sees_marker") != "at-factory-start":
            problems.append(f"task {info['i']} does not run in a context inheriting from the factory's context")
        if info.get("sees_spawner") is not None:
            problems.append(f"task {info['i']} inherited from the context of whoever spawned it")
        if info.get("sees_late") is not None:
            problems.append(f"task {info['i']} sees a resource added after the factory was started (no snapshot)")
    raisers = [t for t in sc["tasks"] if t["outcome"] == "raise"]
    if verdict:
        if len(handled) != len(raisers):
            problems.append(f"exception handler called {len(handled)} times for {len(raisers)} failing tasks")
    if raisers and verdict != "accept":
        if escaped is None or "Boom" not in repr(escaped):
            problems.append(f"a task's exception vanished (handler={verdict}): the owning root context ended with {escaped!r}")
    if (not raisers or verdict == "accept") and escaped is not None:
        problems.append(f"unexpected exception out of the root context: {escaped!r}")
    if factory is not None and factory.all_task_handles():
        problems.append("handles left in the set after everything ended")
    return problems


async def guarded(sc):
    with anyio.fail_after(5):
        return await scenario(sc)


def check(sc):
    try:
        return anyio.run(guarded, sc)
    except BaseException as e:
        return [f"scenario crashed: {type(e).__name__}: {e}"]


def search(seed, budget):
    rnd = random.Random(seed)
    n = 500 if budget == "quick" else 4000
    seen = set()
    for i in range(n):
        sc = gen(rnd)
        seen.add(repr(sc))
        p = check(sc)
        if p:
            return {"violation": True, "input": sc, "detail": "; ".join(p[:3]), "evaluations": i + 1, "distinct": len(seen)}
    return {"violation": False, "evaluations": n, "distinct": len(seen),
            "scope": "1-4 tasks via start_task/start_task_soon from the owner or an inner context; outcomes return/raise/cancelled (also before the task's first step)/blocked until "
                     "teardown; handler none/accept/decline"}


def replay(sc):
    p = check(sc)
    return bool(p), "; ".join(p[:3]) or "task factory behaves as specified on this scenario"


if __name__ == "__main__":
    main(search, replay)
