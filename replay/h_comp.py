"""Native harness for component start-up (C05, C06, C07, C14): random component trees with logged phases."""
import copy
import random
import warnings
import anyio
from hlib import main  # noqa
from asphalt.core import (Component, ComponentStartError, Context, add_resource, add_resource_factory, get_resource, get_resource_nowait,
                          start_component, add_teardown_callback, current_context, ResourceNotFound)

LOG = []


class Boom(Exception):
    pass


class Res:
    def __init__(self, tag):
        self.tag = tag


class ResB:
    def __init__(self, tag):
        self.tag = tag


TYPES = {}


def rtype(i):
    if i not in TYPES:
        TYPES[i] = type(f"R{i}", (Res,), {})
    return TYPES[i]


class Node(Component):
    """generic component driven by its `spec` keyword: phases log themselves; may publish / wait for resources; may fail"""

    def __init__(self, spec=None, **kw):
        self.spec = spec or {}
        self.kw = kw
        LOG.append(("init", self.spec.get("id"), dict(kw)))
        if self.spec.get("fail") == "creating":
            raise Boom("creating")
        for alias, sub in self.spec.get("hard", {}).items():
            self.add_component(alias, sub.get("type", Node), **{k: v for k, v in sub.items() if k != "type"})

    async def _phase(self, phase):
        sid = self.spec.get("id")
        LOG.append((phase + ":enter", sid))
        if self.spec.get("delay", {}).get(phase):
            await anyio.sleep(0)
        for (kind, t, name, tag) in self.spec.get("publish", {}).get(phase, []):
            cls = rtype(t)
            if kind == "sleep":
                await anyio.sleep(0)
                continue
            if kind == "res":
                add_resource(cls(tag), name)
            elif kind == "fac":
                add_resource_factory(lambda cls=cls, tag=tag: cls(tag), name, types=[cls])
            else:
                async def afac(cls=cls, tag=tag):
                    await anyio.sleep(0)
                    return cls(tag)
                add_resource_factory(afac, name, types=[cls])
            LOG.append(("published", sid, t, name, phase))
        for (t, name, optional) in self.spec.get("want", {}).get(phase, []):
            got = await get_resource(rtype(t), name, optional=optional)
            LOG.append(("got", sid, t, name, None if got is None else got.tag, phase))
        if self.spec.get("teardown"):
            add_teardown_callback(lambda sid=sid, phase=phase: LOG.append(("teardown", (sid, phase))))
            LOG.append(("tdreg", (sid, phase)))
        if self.spec.get("fail") == phase:
            raise Boom(phase)
        if self.spec.get("stall") == phase:
            await anyio.sleep(30)
        LOG.append((phase + ":exit", sid))


def make_class(has_prepare, has_start):
    ns = {}
    if has_prepare:
        async def prepare(self):
            await self._phase("prepare")
        ns["prepare"] = prepare
    if has_start:
        async def start(self):
            await self._phase("start")
        ns["start"] = start
    return type(f"Node_{int(has_prepare)}{int(has_start)}", (Node,), ns)


CLASSES = {(p, s): make_class(p, s) for p in (False, True) for s in (False, True)}
globals().update({c.__name__: c for c in CLASSES.values()})


def gen_tree(rnd, depth, ids, allow_fail=True):
    nid = len(ids)
    ids.append(nid)
    has_p, has_s = rnd.random() < 0.6, rnd.random() < 0.7
    spec = {"id": nid, "delay": {"prepare": rnd.random() < 0.5, "start": rnd.random() < 0.5}, "teardown": rnd.random() < 0.5}
    node = {"cls": (has_p, has_s), "spec": spec, "children": {}, "by_name": rnd.random() < 0.4}
    if depth > 0:
        for i in range(rnd.randint(0, 3)):
            alias = rnd.choice([f"c{i}", f"kind/n{i}"])
            node["children"][alias] = gen_tree(rnd, depth - 1, ids)
    return node


def phases_of(node):
    return [ph for ph, has in zip(("prepare", "start"), node["cls"]) if has]


def acyclic(tree, wants):
    """wants: list of ((pub_id, pub_phase), (waiter_id, waiter_phase)); True iff the start-up order constraints plus the waits have no cycle"""
    edges = {}

    def e(u, v):
        edges.setdefault(u, []).append(v)
    for path, n in all_nodes(tree):
        i = n["spec"]["id"]
        for ph in ("prepare", "start"):
            e(("b", i, ph), ("e", i, ph))
        e(("e", i, "prepare"), ("b", i, "start"))
        for ch in n["children"].values():
            c = ch["spec"]["id"]
            e(("e", i, "prepare"), ("b", c, "prepare"))
            e(("e", c, "start"), ("b", i, "start"))
    for (p, pph), (w, wph) in wants:
        e(("b", p, pph), ("e", w, wph))
    state = {}

    def dfs(u):
        state[u] = 1
        for v in edges.get(u, []):
            if state.get(v) == 1 or (v not in state and not dfs(v)):
                return False
        state[u] = 2
        return True
    return all(dfs(u) for u in list(edges) if u not in state)


def add_resources(rnd, tree):
    slots = [(p, n, ph) for p, n in all_nodes(tree) for ph in phases_of(n)]
    if not slots:
        return
    wants = []
    for k in range(rnd.randint(0, 4)):
        ppath, pn, pph = rnd.choice(slots)
        name = rnd.choice(["default", "default", "x"])
        kind = rnd.choice(["res", "res", "fac", "afac"])
        alias = ppath.rsplit(".", 1)[-1]
        eff = alias.split("/", 1)[1] if (name == "default" and pph == "start" and "/" in alias) else name
        items = pn["spec"].setdefault("publish", {}).setdefault(pph, [])
        if rnd.random() < 0.5:
            items.append(["res", 100 + k, name, f"decoy{k}"])
            items.extend([["sleep", 0, "", ""]] * rnd.randint(1, 3))
        items.append([kind, k, name, f"tag{k}"])
        pn["spec"].setdefault("eff", []).append([k, eff, f"tag{k}"])
        for _ in range(rnd.randint(0, 2)):
            wpath, wn, wph = rnd.choice(slots)
            cand = ((pn["spec"]["id"], pph), (wn["spec"]["id"], wph))
            if (wn is pn and wph == pph) or cand in wants or not acyclic(tree, wants + [cand]):
                continue
            wants.append(cand)
            wn["spec"].setdefault("want", {}).setdefault(wph, []).append([k, eff, False])
    if rnd.random() < 0.3:
        wpath, wn, wph = rnd.choice(slots)
        wn["spec"].setdefault("want", {}).setdefault(wph, []).append([999, "default", True])


def build_config(node, how_children):
    """split children between hard-coded add_component() and external `components` config"""
    spec = dict(node["spec"])
    cfg = {"spec": spec}
    hard, ext = {}, {}
    for alias, ch in node["children"].items():
        sub = build_config(ch, how_children)
        c = CLASSES[ch["cls"]]
        sub["type"] = f"{__name__}:{c.__name__}" if ch.get("by_name") else c
        if how_children(alias) == "hard":
            hard[alias] = sub
        else:
            ext[alias] = sub
    if hard:
        spec["hard"] = hard
    if ext:
        cfg["components"] = ext
    return cfg


def all_nodes(node, path=""):
    yield path, node
    for alias, ch in node["children"].items():
        yield from all_nodes(ch, f"{path}.{alias}" if path else alias)


async def run_tree(sc):
    """-> problems list; sc = {tree, fail: (id, phase)|None, stall, timeout}"""
    del LOG[:]
    problems = []
    tree = sc["tree"]
    nodes = dict((n["spec"]["id"], (p, n)) for p, n in all_nodes(tree))
    for nid, (p, n) in nodes.items():
        n["spec"].pop("fail", None)
        n["spec"].pop("stall", None)
    if sc.get("fail"):
        nodes[sc["fail"][0]][1]["spec"]["fail"] = sc["fail"][1]
    if sc.get("stall"):
        nodes[sc["stall"][0]][1]["spec"]["stall"] = sc["stall"][1]
    rnd = random.Random(sc.get("split_seed", 0))
    cfg = build_config(tree, lambda alias: rnd.choice(["hard", "ext"]))
    cfg_before = copy.deepcopy({k: v for k, v in cfg.items()})
    result = None
    err = None
    try:
        async with Context() as ctx:
            try:
                result = await start_component(CLASSES[tree["cls"]], cfg, timeout=sc.get("timeout", 2))
            except BaseException as e:
                err = e
            n_after = len(LOG)
            await anyio.sleep(0.005)
            if err is not None and any(ev[0].endswith(":enter") or ev[0] in ("published", "got") for ev in LOG[n_after:]):
                problems.append(f"component activity after start_component raised: {LOG[n_after:][:3]}")
            if err is None:
                for nid, (p, n) in nodes.items():
                    for (t, eff, tag) in n["spec"].get("eff", []):
                        try:
                            got = await ctx.get_resource(rtype(t), eff, optional=True)
                        except BaseException as e:
                            got = e
                        if getattr(got, "tag", None) != tag:
                            problems.append(f"C14/C06: resource R{t} published by component {nid} ({p!r}) is not available under the name {eff!r} "
                                            f"(lookup gave {got!r})")
    except BaseException as e:
        problems.append(f"unexpected exception leaving the context: {e!r}")
    # ---- waits (C05 / C06)
    if err is None:
        for nid, (p, n) in nodes.items():
            for ph, items in n["spec"].get("want", {}).items():
                for (t, name, optional) in items:
                    got = [ev for ev in LOG if ev[0] == "got" and ev[1:4] == (nid, t, name) and ev[5] == ph]
                    want_tag = None if t == 999 else f"tag{t}"
                    if len(got) != 1 or got[0][4] != want_tag:
                        problems.append(f"C05/C06: component {nid} asked for R{t}/{name!r} in {ph}() and got {got!r}, expected tag {want_tag!r}")
    elif not sc.get("fail") and not sc.get("stall"):
        problems.append(f"C05/C06: an acyclic pattern of components waiting for each other's resources did not complete: {err!r}")
    # ---- the same configuration object starts an equal tree again (C14 / C05)
    if err is None and sc.get("twice"):
        first = sorted(ev[1] for ev in LOG if ev[0] == "init")
        del LOG[:]
        err2 = None
        try:
            async with Context():
                await start_component(CLASSES[tree["cls"]], cfg, timeout=sc.get("timeout", 2))
        except BaseException as e:
            err2 = e
        second = sorted(ev[1] for ev in LOG if ev[0] == "init")
        if err2 is not None or first != second:
            problems.append(f"C14/C05: starting again from the same configuration object gave {err2!r}, components {second} instead of {first}")
    # ---- config unmodified (C14)
    def strip(c):
        return c
    if repr(cfg) != repr(cfg_before):
        problems.append("C14: start_component modified the configuration object it was given")
    # ---- order (C05)
    pos = {}
    for i, ev in enumerate(LOG):
        pos.setdefault((ev[0], ev[1]), i)
    inits = [ev for ev in LOG if ev[0] == "init"]
    first_phase = min([i for i, ev in enumerate(LOG) if ev[0].endswith(":enter")], default=None)
    expected_nodes = set(nodes)
    if sc.get("fail") and sc["fail"][1] == "creating":
        pass
    else:
        if {ev[1] for ev in inits} != expected_nodes:
            problems.append(f"C05/C14: instantiated components {sorted(ev[1] for ev in inits)} != configured tree {sorted(expected_nodes)}")
        if first_phase is not None and any(i > first_phase for i, ev in enumerate(LOG) if ev[0] == "init"):
            problems.append("C05: a component was instantiated after prepare()/start() of another one had begun")
    for nid, (path, n) in nodes.items():
        has_p, has_s = n["cls"]
        for phase, has in (("prepare", has_p), ("start", has_s)):
            cnt = sum(1 for ev in LOG if ev == (phase + ":enter", nid))
            if err is None and cnt != (1 if has else 0):
                problems.append(f"C05: {phase}() of component {nid} called {cnt} times")
            if cnt > 1:
                problems.append(f"C05: {phase}() of component {nid} called {cnt} times")
        for alias, ch in n["children"].items():
            cid = ch["spec"]["id"]
            for cphase in ("prepare", "start"):
                if ("prepare:exit", nid) in pos and (cphase + ":enter", cid) in pos and pos[(cphase + ":enter", cid)] < pos[("prepare:exit", nid)]:
                    problems.append(f"C05: child {cid} began before prepare() of its parent {nid} completed")
                if ("prepare:enter", nid) in pos and ("prepare:exit", nid) not in pos and (cphase + ":enter", cid) in pos:
                    problems.append(f"C05: child {cid} began although prepare() of its parent {nid} never completed")
        if ("start:enter", nid) in pos:
            for p2, d in all_nodes(n):
                if d is n:
                    continue
                did = d["spec"]["id"]
                if d["cls"][1] and (("start:exit", did) not in pos or pos[("start:exit", did)] > pos[("start:enter", nid)]):
                    problems.append(f"C05: start() of {nid} was called before start() of its descendant {did} returned")
    # ---- outcome (C05 / C07)
    if sc.get("fail"):
        fid, phase = sc["fail"]
        fpath, fnode = nodes[fid]
        has_phase = {"creating": True, "prepare": fnode["cls"][0], "start": fnode["cls"][1]}[phase]
        if has_phase:
            pname = {"creating": "creating", "prepare": "preparing", "start": "starting"}[phase]
            if not isinstance(err, ComponentStartError):
                problems.append(f"C07: failing component {fid} in {phase}: start_component raised {err!r} instead of ComponentStartError")
            else:
                if err.phase != pname or err.path != fpath or err.component_type is not CLASSES[fnode["cls"]] or not isinstance(err.__cause__, Boom):
                    problems.append(f"C07: start error names phase={err.phase!r} path={err.path!r} class={err.component_type!r} cause={err.__cause__!r}; "
                                    f"expected {pname!r} {fpath!r} {CLASSES[fnode['cls']].__name__}")
            # ancestors' start() must not run
            for nid, (path, n) in nodes.items():
                if n is not fnode and any(d is fnode for _, d in all_nodes(n)):
                    if ("start:enter", nid) in pos:
                        problems.append(f"C07: start() of ancestor {nid} ran although descendant {fid} failed")
        elif err is not None:
            problems.append(f"unexpected error {err!r}")
    elif sc.get("stall"):
        sid_, sphase = sc["stall"]
        spath, snode = nodes[sid_]
        stalls = {"prepare": snode["cls"][0], "start": snode["cls"][1]}[sphase]
        if stalls and not isinstance(err, TimeoutError):
            problems.append(f"C07: component {sid_} stalls in {sphase}() with timeout={sc.get('timeout')}: start_component raised {err!r} instead of TimeoutError")
        if not stalls and err is not None:
            problems.append(f"C07: start_component raised {err!r} although nothing stalls")
        if stalls:
            for nid, (path, n) in nodes.items():
                if n is not snode and any(d is snode for _, d in all_nodes(n)) and ("start:enter", nid) in pos:
                    problems.append(f"C07: start() of ancestor {nid} ran although descendant {sid_} never finished starting")
    elif err is not None:
        problems.append(f"start_component raised {err!r} on a healthy tree")
    elif result is None or result.spec.get("id") != tree["spec"]["id"]:
        problems.append("C05: start_component did not return the root component instance")
    # ---- teardown of what was registered belongs to the surrounding context (C05/C07)
    want_td = [ev[1] for ev in LOG if ev[0] == "tdreg"]
    got_td = [ev[1] for ev in LOG if ev[0] == "teardown"]
    if sorted(want_td) != sorted(got_td):
        problems.append(f"C05/C07: teardown callbacks registered by components {sorted(want_td)} but run {sorted(got_td)} "
                        "when the surrounding context was left")
    return problems


def gen_scenario(rnd, prop):
    ids = []
    tree = gen_tree(rnd, 2, ids)
    add_resources(rnd, tree)
    sc = {"tree": tree, "split_seed": rnd.randint(0, 1000), "twice": rnd.random() < 0.3}
    r = rnd.random()
    if prop == "C07" and r < 0.2:
        # a stalling component and a short timeout (the waits of other components for its resources are cut by the same timeout)
        sc["stall"] = (rnd.choice(ids), rnd.choice(["prepare", "start"]))
        sc["timeout"] = 0.05
    elif prop == "C07" or r < 0.3:
        nid = rnd.choice(ids)
        sc["fail"] = (nid, rnd.choice(["creating", "prepare", "start"]))
    return sc


async def guarded(sc):
    with anyio.fail_after(8):
        return await run_tree(sc)


def check(sc):
    with warnings.catch_warnings():
        warnings.simplefilter("ignore")
        try:
            return anyio.run(guarded, sc)
        except BaseException as e:
            return [f"scenario crashed: {type(e).__name__}: {e}"]


def make_harness(prop):
    def search(seed, budget):
        rnd = random.Random(seed)
        n = 800 if budget == "quick" else 6000
        seen = set()
        for i in range(n):
            sc = gen_scenario(rnd, prop)
            seen.add(repr(sc))
            p = [x for x in check(sc) if prop in x or not x.startswith("C")]
            if p:
                return {"violation": True, "input": sc, "detail": "; ".join(p[:3]), "evaluations": i + 1, "distinct": len(seen)}
        return {"violation": False, "evaluations": n, "distinct": len(seen),
                "scope": "random component trees (depth <= 3, fan-out <= 3, with/without prepare/start, children hard-coded or from config, "
                         "aliases with /name), optional single failing component in creating/prepare/start, for C07 also a stalling component with a 0.05 s timeout"}

    def replay(sc):
        if sc.get("fail"):
            sc["fail"] = tuple(sc["fail"])
        if sc.get("stall"):
            sc["stall"] = tuple(sc["stall"])

        def fix(n):
            n["cls"] = tuple(n["cls"])
            for ch in n["children"].values():
                fix(ch)
        fix(sc["tree"])
        p = [x for x in check(sc) if prop in x or not x.startswith("C")]
        return bool(p), "; ".join(p[:3]) or "component start-up behaves as specified on this tree"
    return search, replay
